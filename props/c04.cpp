// C04 — what is set through the API is what a parser of the wire bytes gets back.
// Stateful API programs with a SHADOW MODEL: a re-parsable layer stack, then steps on a randomly chosen layer
// (scalar setter | typed option setter | raw add | remove | re-add | clone-and-continue | serialize-and-continue).
// After EVERY step the touched layer is compared with the model (getters, option list, search_option, typed getters,
// header_size); at the end q = parse(serialize(p)) is compared with p and with the model.
// The bytes of every typed option are predicted by reference encoders written here from the RFCs / IEEE 802.11
// (c04_typed.inc), so "libtins' encoder == reference" and "libtins' decoder(reference bytes) == argument" are two
// independent clauses, not a self comparison.
#include "../engine/src.h"
#include "../genlib/parsed.h"
#include "../genlib/builder.h"
#include "../genlib/optconv.h"
#include <functional>
#include <algorithm>
#include <memory>

using namespace verif;
using namespace Tins;

const char* const PROP_ID = "C04";
const size_t PROP_MAXLEN_QUICK = 1536;
const size_t PROP_MAXLEN_THOROUGH = 4096;

namespace {

// ------------------------------------------------------------------------------------------------ reference byte writer
struct Enc {
    std::vector<uint8_t> b;
    Enc& u8(unsigned v) { b.push_back((uint8_t)v); return *this; }
    Enc& be16(uint32_t v) { return u8(v >> 8).u8(v); }
    Enc& be32(uint32_t v) { return be16(v >> 16).be16(v); }
    Enc& be64(uint64_t v) { return be32((uint32_t)(v >> 32)).be32((uint32_t)v); }
    Enc& le16(uint32_t v) { return u8(v).u8(v >> 8); }
    Enc& le32(uint32_t v) { return le16(v).le16(v >> 16); }
    Enc& raw(const uint8_t* p, size_t n) { b.insert(b.end(), p, p + n); return *this; }
    Enc& raw(const std::vector<uint8_t>& v) { b.insert(b.end(), v.begin(), v.end()); return *this; }
    Enc& str(const std::string& v) { b.insert(b.end(), v.begin(), v.end()); return *this; }
    Enc& zeros(size_t n) { b.insert(b.end(), n, 0); return *this; }
    Enc& ip4(const IPv4Address& a) { uint32_t v = a; uint8_t t[4]; memcpy(t, &v, 4); return raw(t, 4); }  // stored in network order
    Enc& ip6(const IPv6Address& a) { return raw(a.begin(), 16); }
    template <size_t n> Enc& hw(const HWAddress<n>& a) { return raw(a.begin(), n); }
    // zero padding so that (size + extra) is a multiple of `unit`
    Enc& pad_to(size_t unit, size_t extra = 0) { while ((b.size() + extra) % unit) b.push_back(0); return *this; }
};

inline std::string hexs(const std::vector<uint8_t>& v) { std::ostringstream os; rhex(os, v.data(), v.size()); return os.str(); }

// ------------------------------------------------------------------------------------------------ shadow model
enum OC { OC_NONE, OC_TCP, OC_IP, OC_IPV6, OC_ICMPV6, OC_DHCP, OC_DHCPV6, OC_DOT11, OC_PPPOE };

struct MOpt {
    uint32_t code = 0;
    size_t lenfield = 0;         // advertised length
    std::vector<uint8_t> data;   // bytes held by the API object
    std::vector<uint8_t> wire;   // bytes a parser of the wire sees (data + padding the format adds)
    std::string typed;           // typed getter whose result is claimed for this entry ("" = none)
    std::string arg;             // expected rendering of that typed getter
    bool spoofed() const { return lenfield != data.size(); }
};

struct IExt { uint8_t cls, type; std::vector<uint8_t> payload; };

struct LM {
    std::string cls;
    OC oc = OC_NONE;
    std::map<std::string, std::string> f;  // getter -> expected rendering (only fields that were set)
    std::vector<MOpt> opts;
    std::vector<uint32_t> csrc, ext;       // RTP lists (values as given to the API)
    std::vector<IExt> iext;                // ICMP / ICMPv6 extensions
    std::set<uint32_t> removed_codes;
    int cap[16] = {-1, -1, -1, -1, -1, -1, -1, -1, -1, -1, -1, -1, -1, -1, -1, -1};   // 802.11 capability bits B0..B15 that were set (-1 = never)
    long vend_size = 64;                   // BootP: "This sets the size of the vend field to 64, as the BootP RFC states"
    std::string get(const std::string& k, const std::string& dflt) const {
        auto it = f.find(k);
        return it == f.end() ? dflt : it->second;
    }
    const MOpt* first(uint32_t code) const {
        for (const MOpt& o : opts) if (o.code == code) return &o;
        return nullptr;
    }
};

OC oc_of(const PDU& p) {
    if (dynamic_cast<const TCP*>(&p)) return OC_TCP;
    if (dynamic_cast<const IP*>(&p)) return OC_IP;
    if (dynamic_cast<const IPv6*>(&p)) return OC_IPV6;
    if (dynamic_cast<const ICMPv6*>(&p)) return OC_ICMPV6;
    if (dynamic_cast<const DHCP*>(&p)) return OC_DHCP;
    if (dynamic_cast<const DHCPv6*>(&p)) return OC_DHCPV6;
    if (dynamic_cast<const Dot11ManagementFrame*>(&p)) return OC_DOT11;
    if (dynamic_cast<const PPPoE*>(&p)) return OC_PPPOE;
    return OC_NONE;
}

const char* list_name(OC oc) {
    switch (oc) {
        case OC_IPV6: return "headers";
        case OC_PPPOE: return "tags";
        case OC_NONE: return "";
        default: return "options";
    }
}

std::string code_text(OC oc, uint32_t code) {
    if (oc == OC_IP) {
        std::ostringstream os;
        os << ((code >> 7) & 1) << ":" << ((code >> 5) & 3) << ":" << (code & 0x1f);
        return os.str();
    }
    return std::to_string(code);
}

std::string render_list(OC oc, const std::vector<MOpt>& l, bool wire) {
    std::ostringstream os;
    os << "[";
    for (size_t i = 0; i < l.size(); ++i) {
        if (i) os << ",";
        const std::vector<uint8_t>& d = wire ? l[i].wire : l[i].data;
        os << "opt(" << code_text(oc, l[i].code) << "," << (wire ? d.size() : l[i].lenfield) << "," << hexs(d) << ")";
    }
    os << "]";
    return os.str();
}

// bytes one option occupies in the header, from the format definitions
size_t opt_wire_size(OC oc, const MOpt& o) {
    switch (oc) {
        case OC_TCP: case OC_IP: return o.code <= 1 ? 1 : 2 + o.data.size();        // EOL / NOP are single octets
        case OC_IPV6: return (2 + o.data.size() + 7) / 8 * 8;                          // 8-octet units
        case OC_ICMPV6: return 2 + o.data.size();
        case OC_DHCP: return (o.code == 0 || o.code == 255) ? 1 : 2 + o.data.size(); // PAD / END are single octets
        case OC_DHCPV6: return 4 + o.data.size();
        case OC_DOT11: return 2 + o.data.size();
        case OC_PPPOE: return 4 + o.data.size();
        default: return 0;
    }
}
size_t opts_wire_size(const LM& m) {
    size_t n = 0;
    for (const MOpt& o : m.opts) n += opt_wire_size(m.oc, o);
    return n;
}

// ------------------------------------------------------------------------------------------------ field aliasing (unions)
// Fields that share header bytes: setting one makes the model forget the others it overlaps (bit masks from the
// RFC layouts: ICMP RFC 792/1191/4884, ICMPv6 RFC 4443/4861/4191/6275/3810, LLC, DHCPv6 RFC 8415 relay header).
struct Alias { const char* cls; int group; const char* field; uint32_t mask; };
const Alias ALIASES[] = {
    {"ICMP", 0, "id", 0xffff0000}, {"ICMP", 0, "sequence", 0x0000ffff}, {"ICMP", 0, "gateway", 0xffffffff}, {"ICMP", 0, "mtu", 0x0000ffff},
    {"ICMP", 0, "pointer", 0xff000000}, {"ICMP", 0, "length", 0x00ff0000},
    {"ICMP", 1, "original_timestamp", 1}, {"ICMP", 1, "address_mask", 1},
    {"ICMPv6", 0, "identifier", 0xffff0000}, {"ICMPv6", 0, "sequence", 0x0000ffff}, {"ICMPv6", 0, "maximum_response_code", 0xffff0000},
    {"ICMPv6", 0, "hop_limit", 0xff000000}, {"ICMPv6", 0, "router", 0x80000000}, {"ICMPv6", 0, "solicited", 0x40000000},
    {"ICMPv6", 0, "override", 0x20000000}, {"ICMPv6", 0, "managed", 0x00800000}, {"ICMPv6", 0, "other", 0x00400000},
    {"ICMPv6", 0, "home_agent", 0x00200000}, {"ICMPv6", 0, "router_pref", 0x00180000}, {"ICMPv6", 0, "router_lifetime", 0x0000ffff},
    {"ICMPv6", 0, "length", 0xff000000},
    {"LLC", 0, "dsap", 0xff}, {"LLC", 0, "group", 0x01}, {"LLC", 1, "ssap", 0xff}, {"LLC", 1, "response", 0x01},
    {"DHCPv6", 0, "hop_count", 0xff0000}, {"DHCPv6", 0, "transaction_id", 0xffffff},
};
void forget_aliases(LM& m, const std::string& field) {
    for (const Alias& a : ALIASES) {
        if (m.cls != a.cls || field != a.field) continue;
        for (const Alias& b : ALIASES)
            if (m.cls == b.cls && b.group == a.group && (b.mask & a.mask) && field != b.field) m.f.erase(b.field);
    }
}

// ------------------------------------------------------------------------------------------------ tag values libtins does not dispatch on
uint16_t safe_ether(uint64_t v) { static const uint16_t T[] = {0x88b5, 0x9000, 0xffff, 0x0601, 0x1234, 0x0000}; return T[v % 6]; }
uint8_t safe_proto(uint64_t v) { static const uint8_t T[] = {253, 254, 200, 99, 143, 61}; return T[v % 6]; }
uint32_t safe_family(uint64_t v) { static const uint32_t T[] = {0, 1, 7, 0x12345678u, 0xffffffffu}; return T[v % 5]; }

}  // namespace

// ------------------------------------------------------------------------------------------------ scalar setters: generated table, own macros
namespace c04s {
using Tins::small_uint;
using namespace verif;

struct SetterCtx {
    Src& s;
    bool probe = true;  // true: only describe the k-th setter, call nothing, consume nothing
    bool under_mpls = false, stp_below = false, has_inner = false;
    char kind = 0;
    bool applied = false;
    std::string cls, name, getter, value, threw;
    explicit SetterCtx(Src& src) : s(src) {}
    bool is(const char* c, const char* n) const { return cls == c && name == n; }
};

// value-domain adjustments: "in range" = what the field / the wire format can carry
template <class VT> inline void adjust(SetterCtx&, VT&) {}
inline void adjust(SetterCtx&, Tins::IP::Flags& v) { v = (Tins::IP::Flags)(v & 7); }  // 3-bit field
inline void adjust(SetterCtx& sc, Tins::ICMPv6::Types& v) {
    // Neighbour discovery (133..137, RFC 4861 4: options run to the end of the packet) and MLD (130, 143: RFC 3810 source /
    // record lists) bodies extend to the end of the message: a separate payload below them is not representable
    int t = (int)v;
    if (sc.has_inner && ((t >= 133 && t <= 137) || t == 130 || t == 143)) v = (Tins::ICMPv6::Types)128;
}
inline void adjust(SetterCtx& sc, uint16_t& v) {
    if (sc.is("EthernetII", "payload_type") || sc.is("Dot1Q", "payload_type") || sc.is("SNAP", "eth_type") || sc.is("SLL", "protocol")) v = safe_ether(v);
    // IEEE 802.1D BPDU timers are 16-bit fields in units of 1/256 s; the API takes and returns whole seconds, so the field carries 0..255 s
    if (sc.cls == "STP" && (sc.name == "msg_age" || sc.name == "max_age" || sc.name == "hello_time" || sc.name == "fwd_delay")) v &= 0xff;
}
inline void adjust(SetterCtx& sc, uint8_t& v) {
    if (sc.is("IP", "protocol") || sc.is("IPv6", "next_header") || sc.is("IPSecAH", "next_header")) v = safe_proto(v);
    // LLC with DSAP = SSAP = 0x42 announces an STP payload
    if ((sc.is("LLC", "dsap") || sc.is("LLC", "ssap")) && (v & 0xfe) == 0x42) v = 0x44;
}
inline void adjust(SetterCtx& sc, uint32_t& v) {
    if (sc.is("Loopback", "family")) v = safe_family(v);
}
inline void adjust(SetterCtx& sc, std::vector<uint8_t>& v) {
    // AH length is counted in 32-bit words (RFC 4302): an ICV that is not a multiple of 4 bytes is not representable
    if (sc.is("IPSecAH", "icv")) v.resize(v.size() & ~(size_t)3);
}
inline void adjust(SetterCtx&, Tins::ICMPv6::multicast_address_records_list& v) {
    // MLDv2 (RFC 3810 5.2): aux data length is counted in 32-bit words
    for (Tins::ICMPv6::multicast_address_record& r : v) r.aux_data.resize(r.aux_data.size() & ~(size_t)3);
}

#define VS(C, K, NAME, GETTER, T) { sc.kind = K; sc.cls = #C; sc.name = #NAME; sc.getter = #GETTER; sc.threw.clear(); sc.value.clear(); sc.applied = false; \
        if (!sc.probe) { typedef std::decay<T>::type VT; VT v = genv(sc.s, Tag<VT>()); adjust(sc, v); sc.value = rstr(v); sc.applied = true; \
        try { p.NAME(v); } catch (const Tins::exception_base& e) { sc.threw = demangled(typeid(e)); } } }
#define VSP(C, K, NAME, GETTER, N) { sc.kind = K; sc.cls = #C; sc.name = #NAME; sc.getter = #GETTER; sc.threw.clear(); sc.value.clear(); sc.applied = false; \
        if (!sc.probe) { std::vector<uint8_t> v = sc.s.bytes(N); std::ostringstream os; rhex(os, v.data(), v.size()); sc.value = os.str(); sc.applied = true; \
        p.NAME(v.data()); } }
#include "../genlib/setters_gen.inc"
#undef VS
#undef VSP

// setters the random program never calls, with the reason
inline bool allowed(const SetterCtx& sc) {
    if (sc.kind == 'O') return false;                                   // typed option setters: c04_typed.inc drives them with a reference encoding
    if (sc.cls == "RadioTap" || sc.cls == "DNS") return false;         // C11 / C10
    if (sc.cls == "Dot11" && (sc.name == "type" || sc.name == "subtype")) return false;  // select the frame class (set by the constructors)
    if (sc.cls == "EAPOL" && sc.name == "type") return false;          // selects RC4 / RSN class
    if (sc.cls == "RC4EAPOL" && sc.name == "key_length") return false;  // length of `key`, not derived by libtins: set together with key()
    if (sc.cls == "MPLS" && sc.name == "bottom_of_stack") return false; // tag: tells the parser what follows
    if (sc.cls == "PPPoE" && sc.name == "payload_length") return false; // length of the session payload, not derived without tags: set by the program end
    if (sc.under_mpls && sc.name == "version" && (sc.cls == "IP" || sc.cls == "IPv6")) return false;  // MPLS has no protocol tag: the version nibble is the tag
    if (sc.stp_below && sc.cls == "LLC") return false;                 // DSAP/SSAP 0x42 are the STP tag
    return true;
}
}  // namespace c04s

namespace {

// ------------------------------------------------------------------------------------------------ typed option steps
// One typed setter call together with the REFERENCE encoding of the option it must produce (written from the
// specification named at each case) and the value its typed getter must return.
struct TStep {
    std::string name;             // setter
    uint32_t code = 0;            // option / tag / element code (as the API container reports it)
    std::vector<uint8_t> data;    // reference encoding of the option body
    std::string getter;           // typed getter whose value is claimed ("" = the class has none)
    std::string arg;              // rendering of the value that getter must return
    std::string shown;            // rendering of the argument (program text)
    std::function<void()> call;
    std::string must_throw;       // the setter documents rejecting this argument: exception type, nothing is added
    bool rate_flags = false;      // 802.11 rate octets: bit 7 ("basic rate") is chosen by libtins, compared modulo that bit
    std::string label;            // coverage label of an alternative construction path of the argument ("" = the usual one)
};

template <class T> inline T G(Src& s) { return genv(s, Tag<T>()); }
inline std::vector<uint8_t> GB(Src& s, size_t maxlen) { return s.bytes(gen_len(s, maxlen)); }
inline std::string GS(Src& s, size_t maxlen) { std::string v = G<std::string>(s); if (v.size() > maxlen) v.resize(maxlen); return v; }
inline uint16_t bswap16(uint16_t v) { return (uint16_t)((v << 8) | (v >> 8)); }

// the call is variadic so that lambdas with several captures need no extra parentheses
#define TS_SET(NAME, CODE, GETTER, ARGV, ...) do { r.name = NAME; r.code = (CODE); r.getter = GETTER; r.arg = (ARGV); r.call = __VA_ARGS__; } while (0)

// TCP: RFC 793 (MSS kind 2), RFC 7323 (window scale kind 3, timestamps kind 8), RFC 2018 (SACK permitted kind 4, SACK kind 5),
// RFC 1146 (alternate checksum request kind 14). All integers big-endian.
TStep typed_tcp(TCP& t, Src& s) {
    TStep r; Enc e;
    switch (s.range(0, 5)) {
        case 0: { uint16_t v = G<uint16_t>(s); e.be16(v); TS_SET("mss", 2, "mss", rstr(v), [&t, v] { t.mss(v); }); break; }
        case 1: { uint8_t v = G<uint8_t>(s); e.u8(v); TS_SET("winscale", 3, "winscale", rstr(v), [&t, v] { t.winscale(v); }); break; }
        case 2: { TS_SET("sack_permitted", 4, "has_sack_permitted", "1", [&t] { t.sack_permitted(); }); break; }
        case 3: {
            TCP::sack_type v;
            size_t n = s.range(0, 9);
            for (size_t i = 0; i < n; ++i) { v.push_back(G<uint32_t>(s)); e.be32(v.back()); }
            TS_SET("sack", 5, "sack", rstr(v), ([&t, v] { t.sack(v); }));
            break;
        }
        case 4: {
            uint32_t a = G<uint32_t>(s), b = G<uint32_t>(s);
            e.be32(a).be32(b);
            TS_SET("timestamp", 8, "timestamp", rstr(std::make_pair(a, b)), ([&t, a, b] { t.timestamp(a, b); }));
            break;
        }
        default: { uint8_t v = G<uint8_t>(s); e.u8(v); TS_SET("altchecksum", 14, "altchecksum", rstr(v), [&t, v] { t.altchecksum((TCP::AltChecksums)v); }); break; }
    }
    r.data = e.b;
    r.shown = r.arg;
    return r;
}

// IPv4: RFC 791 section 3.1: security (type 130: S, C, H 16 bit each, TCC 24 bit), stream id (136), LSRR (131), SSRR (137),
// record route (7): pointer octet + route data; end of list (0), no operation (1).
TStep typed_ip(IP& ip, Src& s) {
    TStep r; Enc e;
    switch (s.weighted({3, 3, 2, 2, 2, 1, 2})) {
        case 0: {
            IP::security_type v = G<IP::security_type>(s);
            uint32_t tcc = v.transmission_control;
            e.be16(v.security).be16(v.compartments).be16(v.handling_restrictions).u8(tcc >> 16).u8(tcc >> 8).u8(tcc);
            TS_SET("security", 130, "security", rstr(v), ([&ip, v] { ip.security(v); }));
            break;
        }
        case 1: { uint16_t v = G<uint16_t>(s); e.be16(v); TS_SET("stream_identifier", 136, "stream_identifier", rstr(v), [&ip, v] { ip.stream_identifier(v); }); break; }
        case 2: case 3: case 4: {
            IP::generic_route_option_type v;
            v.pointer = G<uint8_t>(s);
            e.u8(v.pointer);
            size_t n = s.weighted({1, 4, 3, 2, 1});
            if (n == 4) n = s.range(4, 9);
            for (size_t i = 0; i < n; ++i) { v.routes.push_back(G<IPv4Address>(s)); e.ip4(v.routes.back()); }
            unsigned which = (unsigned)s.range(0, 2);
            if (which == 0) TS_SET("lsrr", 131, "lsrr", rstr(v), ([&ip, v] { ip.lsrr(v); }));
            else if (which == 1) TS_SET("ssrr", 137, "ssrr", rstr(v), ([&ip, v] { ip.ssrr(v); }));
            else TS_SET("record_route", 7, "record_route", rstr(v), ([&ip, v] { ip.record_route(v); }));
            break;
        }
        case 5: { TS_SET("eol", 0, "", "", [&ip] { ip.eol(); }); break; }
        default: { TS_SET("noop", 1, "", "", [&ip] { ip.noop(); }); break; }
    }
    r.data = e.b;
    r.shown = r.arg;
    return r;
}

// DHCP: RFC 2132 option codes; addresses are 4 octets in network order, times are 32-bit big-endian.
TStep typed_dhcp(DHCP& d, Src& s) {
    TStep r; Enc e;
    auto addr = [&](const char* nm, uint32_t code, void (DHCP::*fn)(DHCP::ipaddress_type)) {
        IPv4Address a = G<IPv4Address>(s);
        e.ip4(a);
        TS_SET(nm, code, nm, rstr(a), ([&d, a, fn] { (d.*fn)(a); }));
    };
    auto u32 = [&](const char* nm, uint32_t code, void (DHCP::*fn)(uint32_t)) {
        uint32_t v = G<uint32_t>(s);
        e.be32(v);
        TS_SET(nm, code, nm, rstr(v), ([&d, v, fn] { (d.*fn)(v); }));
    };
    auto list = [&](const char* nm, uint32_t code, void (DHCP::*fn)(const std::vector<DHCP::ipaddress_type>&)) {
        std::vector<IPv4Address> v;
        size_t n = s.range(0, 8);
        for (size_t i = 0; i < n; ++i) { v.push_back(G<IPv4Address>(s)); e.ip4(v.back()); }
        TS_SET(nm, code, nm, rstr(v), ([&d, v, fn] { (d.*fn)(v); }));
    };
    auto str = [&](const char* nm, uint32_t code, void (DHCP::*fn)(const std::string&)) {
        std::string v = GS(s, 255);
        e.str(v);
        TS_SET(nm, code, nm, rstr(v), ([&d, v, fn] { (d.*fn)(v); }));
    };
    switch (s.range(0, 12)) {
        case 0: { uint8_t v = G<uint8_t>(s); e.u8(v); TS_SET("type", 53, "type", rstr(v), [&d, v] { d.type((DHCP::Flags)v); }); break; }
        case 1: addr("server_identifier", 54, &DHCP::server_identifier); break;
        case 2: u32("lease_time", 51, &DHCP::lease_time); break;
        case 3: u32("renewal_time", 58, &DHCP::renewal_time); break;
        case 4: u32("rebind_time", 59, &DHCP::rebind_time); break;
        case 5: addr("subnet_mask", 1, &DHCP::subnet_mask); break;
        case 6: list("routers", 3, &DHCP::routers); break;
        case 7: list("domain_name_servers", 6, &DHCP::domain_name_servers); break;
        case 8: addr("broadcast", 28, &DHCP::broadcast); break;
        case 9: addr("requested_ip", 50, &DHCP::requested_ip); break;
        case 10: str("domain_name", 15, &DHCP::domain_name); break;
        case 11: str("hostname", 12, &DHCP::hostname); break;
        default: TS_SET("end", 255, "", "", [&d] { d.end(); }); break;
    }
    r.data = e.b;
    r.shown = r.arg;
    return r;
}

// DHCPv6: RFC 8415 section 21 (option formats), section 11 (DUID = 2-octet type + 1..128 octets).
TStep typed_dhcpv6(DHCPv6& d, Src& s) {
    TStep r; Enc e;
    auto class_data = [&](std::vector<std::vector<uint8_t> >& out, size_t minn) {
        size_t n = s.range(minn, 4);
        for (size_t i = 0; i < n; ++i) {
            size_t mul = s.weighted({2, 3, 2, 1}), len = s.range(0, 5);
            out.push_back(s.bytes(mul * len));
            e.be16(out.back().size()).raw(out.back());
        }
    };
    switch (s.range(0, 18)) {
        case 0: {
            DHCPv6::ia_na_type v = G<DHCPv6::ia_na_type>(s);
            e.be32(v.id).be32(v.t1).be32(v.t2).raw(v.options);
            TS_SET("ia_na", 3, "ia_na", rstr(v), ([&d, v] { d.ia_na(v); }));
            break;
        }
        case 1: { DHCPv6::ia_ta_type v = G<DHCPv6::ia_ta_type>(s); e.be32(v.id).raw(v.options); TS_SET("ia_ta", 4, "ia_ta", rstr(v), ([&d, v] { d.ia_ta(v); })); break; }
        case 2: {
            DHCPv6::ia_address_type v = G<DHCPv6::ia_address_type>(s);
            e.ip6(v.address).be32(v.preferred_lifetime).be32(v.valid_lifetime).raw(v.options);
            TS_SET("ia_address", 5, "ia_address", rstr(v), ([&d, v] { d.ia_address(v); }));
            break;
        }
        case 3: {
            DHCPv6::option_request_type v = G<DHCPv6::option_request_type>(s);
            for (uint16_t x : v) e.be16(x);
            TS_SET("option_request", 6, "option_request", rstr(v), ([&d, v] { d.option_request(v); }));
            break;
        }
        case 4: { uint8_t v = G<uint8_t>(s); e.u8(v); TS_SET("preference", 7, "preference", rstr(v), [&d, v] { d.preference(v); }); break; }
        case 5: { uint16_t v = G<uint16_t>(s); e.be16(v); TS_SET("elapsed_time", 8, "elapsed_time", rstr(v), [&d, v] { d.elapsed_time(v); }); break; }
        case 6: { std::vector<uint8_t> v = GB(s, 300); e.raw(v); TS_SET("relay_message", 9, "relay_message", rstr(v), ([&d, v] { d.relay_message(v); })); break; }
        case 7: {
            DHCPv6::authentication_type v = G<DHCPv6::authentication_type>(s);
            e.u8(v.protocol).u8(v.algorithm).u8(v.rdm).be64(v.replay_detection).raw(v.auth_info);
            TS_SET("authentication", 11, "authentication", rstr(v), ([&d, v] { d.authentication(v); }));
            break;
        }
        case 8: { IPv6Address v = G<IPv6Address>(s); e.ip6(v); TS_SET("server_unicast", 12, "server_unicast", rstr(v), ([&d, v] { d.server_unicast(v); })); break; }
        case 9: {
            DHCPv6::status_code_type v = G<DHCPv6::status_code_type>(s);
            e.be16(v.code).str(v.message);
            TS_SET("status_code", 13, "status_code", rstr(v), ([&d, v] { d.status_code(v); }));
            break;
        }
        case 10: TS_SET("rapid_commit", 14, "has_rapid_commit", "1", [&d] { d.rapid_commit(); }); break;
        case 11: {
            DHCPv6::user_class_type v;  // one or more instances of user class data (RFC 8415 21.15); an instance may be empty
            class_data(v.data, 1);
            TS_SET("user_class", 15, "user_class", rstr(v), ([&d, v] { d.user_class(v); }));
            break;
        }
        case 12: {
            DHCPv6::vendor_class_type v;
            v.enterprise_number = G<uint32_t>(s);
            e.be32(v.enterprise_number);
            class_data(v.vendor_class_data, 0);
            TS_SET("vendor_class", 16, "vendor_class", rstr(v), ([&d, v] { d.vendor_class(v); }));
            break;
        }
        case 13: {
            DHCPv6::vendor_info_type v = G<DHCPv6::vendor_info_type>(s);
            e.be32(v.enterprise_number).raw(v.data);
            TS_SET("vendor_info", 17, "vendor_info", rstr(v), ([&d, v] { d.vendor_info(v); }));
            break;
        }
        case 14: { std::vector<uint8_t> v = GB(s, 300); e.raw(v); TS_SET("interface_id", 18, "interface_id", rstr(v), ([&d, v] { d.interface_id(v); })); break; }
        case 15: { uint8_t v = G<uint8_t>(s); e.u8(v); TS_SET("reconfigure_msg", 19, "reconfigure_msg", rstr(v), [&d, v] { d.reconfigure_msg(v); }); break; }
        case 16: TS_SET("reconfigure_accept", 20, "has_reconfigure_accept", "1", [&d] { d.reconfigure_accept(); }); break;
        default: {
            bool client = s.boolean();
            DHCPv6::duid_type v;
            v.id = G<uint16_t>(s);
            v.data = s.bytes(1 + gen_len(s, 127));  // the DUID body is 1..128 octets
            // the converting constructors duid_type(duid_llt / duid_en / duid_ll) (choice drawn last): the body is read as the
            // structured DUID of RFC 8415 11.2 (type 1: hardware type (16) time (32) link-layer address), 11.3 (type 2:
            // enterprise number (32) identifier), 11.4 (type 3: hardware type (16) link-layer address), all big-endian;
            // the reference option stays "type, then exactly these body octets"
            {
                const std::vector<uint8_t> body = v.data;
                auto be = [&](size_t off, size_t n) { uint32_t x = 0; for (size_t k = 0; k < n; ++k) x = (x << 8) | body[off + k]; return x; };
                unsigned via = (unsigned)s.weighted({2, 2, 2, 2});
                if (via == 1 && body.size() >= 6) {
                    v = DHCPv6::duid_type(DHCPv6::duid_llt((uint16_t)be(0, 2), be(2, 4), std::vector<uint8_t>(body.begin() + 6, body.end())));
                    r.label = "duid-from-llt";
                } else if (via == 2 && body.size() >= 4) {
                    v = DHCPv6::duid_type(DHCPv6::duid_en(be(0, 4), std::vector<uint8_t>(body.begin() + 4, body.end())));
                    r.label = "duid-from-en";
                } else if (via == 3 && body.size() >= 2) {
                    v = DHCPv6::duid_type(DHCPv6::duid_ll((uint16_t)be(0, 2), std::vector<uint8_t>(body.begin() + 2, body.end())));
                    r.label = "duid-from-ll";
                } else via = 0;
                DHCPv6::duid_type ref(via ? (uint16_t)via : v.id, body);   // what the option must carry and the getter must return
                e.be16(ref.id).raw(ref.data);
                std::string arg = rstr(ref);
                if (client) TS_SET("client_id", 1, "client_id", arg, ([&d, v] { d.client_id(v); }));
                else TS_SET("server_id", 2, "server_id", arg, ([&d, v] { d.server_id(v); }));
                break;
            }
        }
    }
    r.data = e.b;
    r.shown = r.arg;
    return r;
}

// PPPoE: RFC 2516 appendix A tag types (16 bit, network order on the wire; the API container holds them in host
// order of the raw wire bytes, i.e. byte-swapped on a little-endian host).
TStep typed_pppoe(PPPoE& p, Src& s) {
    TStep r; Enc e;
    auto str = [&](const char* nm, uint16_t net, void (PPPoE::*fn)(const std::string&)) {
        std::string v = GS(s, 300);
        e.str(v);
        TS_SET(nm, bswap16(net), nm, rstr(v), ([&p, v, fn] { (p.*fn)(v); }));
    };
    auto bytes = [&](const char* nm, uint16_t net, void (PPPoE::*fn)(const byte_array&)) {
        std::vector<uint8_t> v = GB(s, 300);
        e.raw(v);
        TS_SET(nm, bswap16(net), nm, rstr(v), ([&p, v, fn] { (p.*fn)(v); }));
    };
    switch (s.range(0, 9)) {
        case 0: str("service_name", 0x0101, &PPPoE::service_name); break;
        case 1: str("ac_name", 0x0102, &PPPoE::ac_name); break;
        case 2: bytes("host_uniq", 0x0103, &PPPoE::host_uniq); break;
        case 3: bytes("ac_cookie", 0x0104, &PPPoE::ac_cookie); break;
        case 4: {
            PPPoE::vendor_spec_type v = G<PPPoE::vendor_spec_type>(s);
            e.be32(v.vendor_id).raw(v.data);
            TS_SET("vendor_specific", bswap16(0x0105), "vendor_specific", rstr(v), ([&p, v] { p.vendor_specific(v); }));
            break;
        }
        case 5: bytes("relay_session_id", 0x0110, &PPPoE::relay_session_id); break;
        case 6: str("service_name_error", 0x0201, &PPPoE::service_name_error); break;
        case 7: str("ac_system_error", 0x0202, &PPPoE::ac_system_error); break;
        case 8: str("generic_error", 0x0203, &PPPoE::generic_error); break;
        default: TS_SET("end_of_list", 0, "", "", [&p] { p.end_of_list(); }); break;
    }
    r.data = e.b;
    r.shown = r.arg;
    return r;
}

// ICMPv6 neighbour discovery options. Every option is a multiple of 8 octets INCLUDING its type and length octets
// (RFC 4861 4.6); an option body that is not 6 (mod 8) octets long is not representable unless the option
// defines padding. Options that carry padding (RSA signature RFC 3971 5.2, link-layer address RFC 5568 6.4.3, route
// information RFC 4191 2.3) give the decoder no way to tell padding from data: their typed getter is expected to
// return the argument followed by exactly the zero padding the format requires.
TStep typed_icmpv6(ICMPv6& p, Src& s) {
    TStep r; Enc e;
    auto zero_mostly = [&](uint8_t* a, size_t n) { if (!s.chance(30)) memset(a, 0, n); };
    switch (s.range(0, 23)) {
        case 0: case 1: {  // RFC 4861 4.6.1: source (1) / target (2) link-layer address
            bool src = s.boolean();
            ICMPv6::hwaddress_type a = G<ICMPv6::hwaddress_type>(s);
            e.hw(a);
            if (src) TS_SET("source_link_layer_addr", 1, "source_link_layer_addr", rstr(a), ([&p, a] { p.source_link_layer_addr(a); }));
            else TS_SET("target_link_layer_addr", 2, "target_link_layer_addr", rstr(a), ([&p, a] { p.target_link_layer_addr(a); }));
            break;
        }
        case 2: {  // RFC 4861 4.6.2: prefix length, L|A|reserved1, valid, preferred, reserved2, prefix
            ICMPv6::prefix_info_type v = G<ICMPv6::prefix_info_type>(s);
            if (!s.chance(30)) v.reserved2 = 0;
            e.u8(v.prefix_len).u8((v.L << 7) | (v.A << 6)).be32(v.valid_lifetime).be32(v.preferred_lifetime).be32(v.reserved2).ip6(v.prefix);
            TS_SET("prefix_info", 3, "prefix_info", rstr(v), ([&p, v] { p.prefix_info(v); }));
            break;
        }
        case 3: {  // RFC 4861 4.6.3: the caller provides reserved + IP header + data; no padding defined
            std::vector<uint8_t> v = s.bytes(6 + 8 * s.range(0, 5));
            e.raw(v);
            TS_SET("redirect_header", 4, "redirect_header", rstr(v), ([&p, v] { p.redirect_header(v); }));
            break;
        }
        case 4: {  // RFC 4861 4.6.4: reserved (16), MTU (32)
            ICMPv6::mtu_type v = G<ICMPv6::mtu_type>(s);
            e.be16(v.first).be32(v.second);
            TS_SET("mtu", 5, "mtu", rstr(v), ([&p, v] { p.mtu(v); }));
            break;
        }
        case 5: {  // RFC 2491 5.2: shortcut limit, reserved1 (8), reserved2 (32)
            ICMPv6::shortcut_limit_type v = G<ICMPv6::shortcut_limit_type>(s);
            e.u8(v.limit).u8(v.reserved1).be32(v.reserved2);
            TS_SET("shortcut_limit", 6, "shortcut_limit", rstr(v), ([&p, v] { p.shortcut_limit(v); }));
            break;
        }
        case 6: {  // RFC 6275 7.3: reserved (16), advertisement interval (32)
            ICMPv6::new_advert_interval_type v = G<ICMPv6::new_advert_interval_type>(s);
            e.be16(v.reserved).be32(v.interval);
            TS_SET("new_advert_interval", 7, "new_advert_interval", rstr(v), ([&p, v] { p.new_advert_interval(v); }));
            break;
        }
        case 7: {  // RFC 6275 7.4: reserved, preference, lifetime (16 each); the setter documents exactly 3 elements
            ICMPv6::new_ha_info_type v;
            size_t n = s.chance(15) ? s.range(0, 5) : 3;
            for (size_t i = 0; i < n; ++i) { v.push_back(G<uint16_t>(s)); e.be16(v.back()); }
            TS_SET("new_home_agent_info", 8, "new_home_agent_info", rstr(v), ([&p, v] { p.new_home_agent_info(v); }));
            if (n != 3) r.must_throw = "Tins::malformed_option";
            break;
        }
        case 8: case 9: {  // RFC 3122 3: reserved (48), one or more addresses
            bool src = s.boolean();
            ICMPv6::addr_list_type v;
            std::vector<uint8_t> res = s.bytes(6);
            memcpy(v.reserved, res.data(), 6);
            zero_mostly(v.reserved, 6);
            e.raw(v.reserved, 6);
            size_t n = 1 + s.range(0, 3);
            for (size_t i = 0; i < n; ++i) { v.addresses.push_back(G<IPv6Address>(s)); e.ip6(v.addresses.back()); }
            if (src) TS_SET("source_addr_list", 9, "source_addr_list", rstr(v), ([&p, v] { p.source_addr_list(v); }));
            else TS_SET("target_addr_list", 10, "target_addr_list", rstr(v), ([&p, v] { p.target_addr_list(v); }));
            break;
        }
        case 10: {  // RFC 3971 5.2: reserved (16), key hash (128), signature, padding to a multiple of 8 octets
            ICMPv6::rsa_sign_type v;
            std::vector<uint8_t> kh = s.bytes(16);
            memcpy(v.key_hash, kh.data(), 16);
            v.signature = GB(s, 64);
            e.be16(0).raw(v.key_hash, 16).raw(v.signature).pad_to(8, 2);
            ICMPv6::rsa_sign_type exp = v;
            exp.signature.resize(e.b.size() - 18, 0);
            std::string shown = rstr(v);
            TS_SET("rsa_signature", 12, "rsa_signature", rstr(exp), ([&p, v] { p.rsa_signature(v); }));
            r.shown = shown;
            break;
        }
        case 11: {  // RFC 3971 5.3.1: reserved (48), timestamp (64)
            ICMPv6::timestamp_type v;
            std::vector<uint8_t> res = s.bytes(6);
            memcpy(v.reserved, res.data(), 6);
            zero_mostly(v.reserved, 6);
            v.timestamp = G<uint64_t>(s);
            e.raw(v.reserved, 6).be64(v.timestamp);
            TS_SET("timestamp", 13, "timestamp", rstr(v), ([&p, v] { p.timestamp(v); }));
            break;
        }
        case 12: {  // RFC 3971 5.3.2: nonce; length chosen by the sender so that the option is a multiple of 8 octets
            std::vector<uint8_t> v = s.bytes(6 + 8 * s.range(0, 3));
            e.raw(v);
            TS_SET("nonce", 14, "nonce", rstr(v), ([&p, v] { p.nonce(v); }));
            break;
        }
        case 13: {  // RFC 5568 6.4.2: option code, prefix length, reserved (32), address
            ICMPv6::ip_prefix_type v = G<ICMPv6::ip_prefix_type>(s);
            e.u8(v.option_code).u8(v.prefix_len).be32(0).ip6(v.address);
            TS_SET("ip_prefix", 17, "ip_prefix", rstr(v), ([&p, v] { p.ip_prefix(v); }));
            break;
        }
        case 14: {  // RFC 5568 6.4.3: option code, link-layer address, zero padding
            ICMPv6::lladdr_type v;
            v.option_code = G<uint8_t>(s);
            v.address = GB(s, 40);
            ICMPv6::lladdr_type a = v;   // the argument handed to the setter; v stays the reference value
            if (s.chance(60) && v.address.size() >= 6) {   // the (option_code, hwaddress) constructor: a 6-octet address (drawn last)
                v.address.resize(6);
                a = ICMPv6::lladdr_type(v.option_code, ICMPv6::hwaddress_type(v.address.data()));
                r.label = "icmpv6-lladdr-ctor";
            }
            e.u8(v.option_code).raw(v.address).pad_to(8, 2);
            ICMPv6::lladdr_type exp = v;
            exp.address.resize(e.b.size() - 1, 0);
            std::string shown = rstr(v);
            TS_SET("link_layer_addr", 19, "link_layer_addr", rstr(exp), ([&p, a] { p.link_layer_addr(a); }));
            r.shown = shown;
            break;
        }
        case 15: {  // RFC 5568 6.4.5: option code, status, reserved (32)
            ICMPv6::naack_type v;
            v.code = G<uint8_t>(s);
            v.status = G<uint8_t>(s);
            std::vector<uint8_t> res = s.bytes(4);
            memcpy(v.reserved, res.data(), 4);
            zero_mostly(v.reserved, 4);
            e.u8(v.code).u8(v.status).raw(v.reserved, 4);
            TS_SET("naack", 20, "naack", rstr(v), ([&p, v] { p.naack(v); }));
            break;
        }
        case 16: {  // RFC 5380 8: dist (4) | pref (4), R | reserved, valid lifetime (32), global address
            ICMPv6::map_type v = G<ICMPv6::map_type>(s);
            e.u8((v.dist << 4) | v.pref).u8(v.r << 7).be32(v.valid_lifetime).ip6(v.address);
            TS_SET("map", 23, "map", rstr(v), ([&p, v] { p.map(v); }));
            break;
        }
        case 17: {  // RFC 4191 2.3: prefix length, resvd|prf|resvd, route lifetime (32), prefix, zero padded
            ICMPv6::route_info_type v;
            v.prefix_len = G<uint8_t>(s);
            v.pref = G<small_uint<2> >(s);
            v.route_lifetime = G<uint32_t>(s);
            v.prefix = GB(s, 24);
            e.u8(v.prefix_len).u8(v.pref << 3).be32(v.route_lifetime).raw(v.prefix).pad_to(8, 2);
            ICMPv6::route_info_type exp = v;
            exp.prefix.resize(e.b.size() - 6, 0);
            std::string shown = rstr(v);
            TS_SET("route_info", 24, "route_info", rstr(exp), ([&p, v] { p.route_info(v); }));
            r.shown = shown;
            break;
        }
        case 18: {  // RFC 8106 5.1: reserved (16), lifetime (32), one or more addresses
            ICMPv6::recursive_dns_type v;
            v.lifetime = G<uint32_t>(s);
            e.be16(0).be32(v.lifetime);
            size_t n = 1 + s.range(0, 3);
            for (size_t i = 0; i < n; ++i) { v.servers.push_back(G<IPv6Address>(s)); e.ip6(v.servers.back()); }
            TS_SET("recursive_dns_servers", 25, "recursive_dns_servers", rstr(v), ([&p, v] { p.recursive_dns_servers(v); }));
            break;
        }
        case 19: {  // RFC 5269 4.1: pad length, AT (4) | reserved (4), key, padding
            ICMPv6::handover_key_req_type v;
            v.AT = G<small_uint<4> >(s);
            v.key = GB(s, 64);
            size_t pad = (8 - (4 + v.key.size()) % 8) % 8;
            e.u8(pad).u8(v.AT << 4).raw(v.key).zeros(pad);
            TS_SET("handover_key_request", 27, "handover_key_request", rstr(v), ([&p, v] { p.handover_key_request(v); }));
            break;
        }
        case 20: {  // RFC 5269 4.2: pad length, AT | reserved, lifetime (16), key, padding
            ICMPv6::handover_key_reply_type v;
            v.AT = G<small_uint<4> >(s);
            v.lifetime = G<uint16_t>(s);
            v.key = GB(s, 64);
            size_t pad = (8 - (6 + v.key.size()) % 8) % 8;
            e.u8(pad).u8(v.AT << 4).be16(v.lifetime).raw(v.key).zeros(pad);
            TS_SET("handover_key_reply", 28, "handover_key_reply", rstr(v), ([&p, v] { p.handover_key_reply(v); }));
            break;
        }
        case 21: {  // RFC 5271 3.1: option code, HAI length, HAI, padding
            ICMPv6::handover_assist_info_type v;
            v.option_code = G<uint8_t>(s);
            v.hai = GB(s, 255);
            e.u8(v.option_code).u8(v.hai.size()).raw(v.hai).pad_to(8, 2);
            TS_SET("handover_assist_info", 29, "handover_assist_info", rstr(v), ([&p, v] { p.handover_assist_info(v); }));
            break;
        }
        case 22: {  // RFC 5271 3.2: option code, MN length, MN identifier, padding
            ICMPv6::mobile_node_id_type v;
            v.option_code = G<uint8_t>(s);
            v.mn = GB(s, 255);
            e.u8(v.option_code).u8(v.mn.size()).raw(v.mn).pad_to(8, 2);
            TS_SET("mobile_node_identifier", 30, "mobile_node_identifier", rstr(v), ([&p, v] { p.mobile_node_identifier(v); }));
            break;
        }
        default: {  // RFC 8106 5.2: reserved (16), lifetime (32), domain names as DNS label sequences, zero padded
            ICMPv6::dns_search_list_type v;
            v.lifetime = G<uint32_t>(s);
            e.be16(0).be32(v.lifetime);
            size_t nd = s.range(0, 3);
            for (size_t i = 0; i < nd; ++i) {
                std::string dom;
                size_t nl = 1 + s.range(0, 3);
                for (size_t k = 0; k < nl; ++k) {  // labels of 1..63 octets without '.', the only shapes the format can carry
                    size_t len = s.chance(10) ? 63 : 1 + s.range(0, 11);
                    std::string lab;
                    for (size_t c = 0; c < len; ++c) lab += (char)('a' + s.u8() % 26);
                    e.u8(len).str(lab);
                    if (k) dom += '.';
                    dom += lab;
                }
                e.u8(0);
                v.domains.push_back(dom);
            }
            e.pad_to(8, 2);
            TS_SET("dns_search_list", 31, "dns_search_list", rstr(v), ([&p, v] { p.dns_search_list(v); }));
            break;
        }
    }
    r.data = e.b;
    if (r.shown.empty()) r.shown = r.arg;
    return r;
}

// IEEE 802.11-2012 section 8.4.2 information elements (element id, 8-bit length, body; multi-octet integers little-endian).
// RSN element 8.4.2.27: suite selectors are OUI 00-0F-AC + type.
TStep typed_dot11(Dot11ManagementFrame& p, Src& s) {
    TStep r; Enc e;
    typedef Dot11ManagementFrame M;
    auto u8v = [&](const char* nm, uint32_t code, void (M::*fn)(uint8_t)) {
        uint8_t v = G<uint8_t>(s);
        e.u8(v);
        TS_SET(nm, code, nm, rstr(v), ([&p, v, fn] { (p.*fn)(v); }));
    };
    auto pair8 = [&](const char* nm, uint32_t code, void (M::*fn)(uint8_t, uint8_t)) {
        uint8_t a = G<uint8_t>(s), b = G<uint8_t>(s);
        e.u8(a).u8(b);
        TS_SET(nm, code, nm, rstr(std::make_pair(a, b)), ([&p, a, b, fn] { (p.*fn)(a, b); }));
    };
    auto rates = [&](const char* nm, uint32_t code, void (M::*fn)(const M::rates_type&)) {
        M::rates_type v;  // rate in Mb/s; the element carries it in units of 500 kb/s in 7 bits
        size_t n = s.range(0, 8);
        for (size_t i = 0; i < n; ++i) { unsigned k = (unsigned)s.range(0, 127); v.push_back((float)k / 2); e.u8(k); }
        TS_SET(nm, code, nm, rstr(v), ([&p, v, fn] { (p.*fn)(v); }));
        r.rate_flags = true;
    };
    auto pairs = [&](M::channels_type& out, size_t minn) {
        size_t n = s.range(minn, 6);
        for (size_t i = 0; i < n; ++i) { uint8_t a = G<uint8_t>(s), b = G<uint8_t>(s); out.push_back(std::make_pair(a, b)); e.u8(a).u8(b); }
    };
    switch (s.range(0, 25)) {
        case 0: { std::string v = GS(s, s.chance(80) ? 32 : 255); e.str(v); TS_SET("ssid", 0, "ssid", rstr(v), ([&p, v] { p.ssid(v); })); break; }
        case 1: {
            static const RSNInformation::CypherSuites CS[] = {RSNInformation::WEP_40, RSNInformation::TKIP, RSNInformation::CCMP, RSNInformation::WEP_104};
            static const uint8_t CSW[] = {1, 2, 4, 5};
            static const RSNInformation::AKMSuites AK[] = {RSNInformation::EAP, RSNInformation::PSK};
            static const uint8_t AKW[] = {1, 2};
            auto suite = [&](uint8_t t) { e.u8(0x00).u8(0x0f).u8(0xac).u8(t); };
            RSNInformation v;
            uint16_t ver = G<uint16_t>(s), cap = G<uint16_t>(s);
            size_t g = s.pick(4), np = s.range(0, 4), na = s.range(0, 3);
            v.version(ver);
            v.group_suite(CS[g]);
            v.capabilities(cap);
            e.le16(ver);
            suite(CSW[g]);
            e.le16(np);
            for (size_t i = 0; i < np; ++i) { size_t k = s.pick(4); v.add_pairwise_cypher(CS[k]); suite(CSW[k]); }
            e.le16(na);
            for (size_t i = 0; i < na; ++i) { size_t k = s.pick(2); v.add_akm_cypher(AK[k]); suite(AKW[k]); }
            e.le16(cap);
            // alternative ways to obtain the argument (choice drawn last): the serialization_type constructor applied to the
            // REFERENCE element body, and the helper wpa2_psk() ("information for a WPA2-PSK AP": RSN version 1, CCMP as group
            // and only pairwise suite, PSK as only AKM suite - IEEE 802.11i / WPA2-Personal; the capabilities word is not
            // part of that definition and is taken from the object)
            switch (s.weighted({2, 2, 2})) {
                case 1: {
                    std::string arg = rstr(v);
                    RSNInformation v2(e.b);
                    TS_SET("rsn_information", 48, "rsn_information", arg, ([&p, v2] { p.rsn_information(v2); }));
                    r.label = "rsn-from-serialization";
                    break;
                }
                case 2: {
                    RSNInformation w = RSNInformation::wpa2_psk();
                    e = Enc();
                    e.le16(1); suite(4); e.le16(1); suite(4); e.le16(1); suite(2); e.le16(w.capabilities());
                    RSNInformation ref;
                    ref.version(1); ref.group_suite(RSNInformation::CCMP); ref.add_pairwise_cypher(RSNInformation::CCMP); ref.add_akm_cypher(RSNInformation::PSK);
                    ref.capabilities(w.capabilities());
                    TS_SET("rsn_information", 48, "rsn_information", rstr(ref), ([&p, w] { p.rsn_information(w); }));
                    r.label = "rsn-wpa2-psk";
                    break;
                }
                default: TS_SET("rsn_information", 48, "rsn_information", rstr(v), ([&p, v] { p.rsn_information(v); })); break;
            }
            break;
        }
        case 2: rates("supported_rates", 1, &M::supported_rates); break;
        case 3: rates("extended_supported_rates", 50, &M::extended_supported_rates); break;
        case 4: u8v("qos_capability", 46, &M::qos_capability); break;
        case 5: pair8("power_capability", 33, &M::power_capability); break;
        case 6: { M::channels_type v; pairs(v, 0); TS_SET("supported_channels", 36, "supported_channels", rstr(v), ([&p, v] { p.supported_channels(v); })); break; }
        case 7: {  // EDCA parameter set: QoS info, reserved, four AC parameter records (libtins takes them as 32-bit LE words); no typed getter
            uint32_t a = G<uint32_t>(s), b = G<uint32_t>(s), c = G<uint32_t>(s), d = G<uint32_t>(s);
            e.u8(0).u8(0).le32(a).le32(b).le32(c).le32(d);
            std::ostringstream os;
            os << a << "," << b << "," << c << "," << d;
            TS_SET("edca_parameter_set", 12, "", os.str(), ([&p, a, b, c, d] { p.edca_parameter_set(a, b, c, d); }));
            break;
        }
        case 8: { M::request_info_type v = GB(s, 255); e.raw(v); TS_SET("request_information", 10, "request_information", rstr(v), ([&p, v] { p.request_information(v); })); break; }
        case 9: {
            M::fh_params_set v = G<M::fh_params_set>(s);
            e.le16(v.dwell_time).u8(v.hop_set).u8(v.hop_pattern).u8(v.hop_index);
            const std::string arg = rstr(v);
            if (s.boolean()) { v = M::fh_params_set(v.dwell_time, v.hop_set, v.hop_pattern, v.hop_index); r.label = "dot11-struct-ctor"; }
            TS_SET("fh_parameter_set", 2, "fh_parameter_set", arg, ([&p, v] { p.fh_parameter_set(v); }));
            break;
        }
        case 10: u8v("ds_parameter_set", 3, &M::ds_parameter_set); break;
        case 11: {
            M::cf_params_set v = G<M::cf_params_set>(s);
            e.u8(v.cfp_count).u8(v.cfp_period).le16(v.cfp_max_duration).le16(v.cfp_dur_remaining);
            const std::string arg = rstr(v);
            if (s.boolean()) { v = M::cf_params_set(v.cfp_count, v.cfp_period, v.cfp_max_duration, v.cfp_dur_remaining); r.label = "dot11-struct-ctor"; }
            TS_SET("cf_parameter_set", 4, "cf_parameter_set", arg, ([&p, v] { p.cf_parameter_set(v); }));
            break;
        }
        case 12: { uint16_t v = G<uint16_t>(s); e.le16(v); TS_SET("ibss_parameter_set", 6, "ibss_parameter_set", rstr(v), [&p, v] { p.ibss_parameter_set(v); }); break; }
        case 13: {  // IBSS DFS: owner, recovery interval, channel map (at least one pair: the element's minimum length)
            M::ibss_dfs_params v;
            v.dfs_owner = G<M::address_type>(s);
            v.recovery_interval = G<uint8_t>(s);
            e.hw(v.dfs_owner).u8(v.recovery_interval);
            pairs(v.channel_map, 1);
            const std::string arg = rstr(v);
            if (s.boolean()) { v = M::ibss_dfs_params(v.dfs_owner, v.recovery_interval, v.channel_map); r.label = "dot11-struct-ctor"; }
            TS_SET("ibss_dfs", 41, "ibss_dfs", arg, ([&p, v] { p.ibss_dfs(v); }));
            break;
        }
        case 14: {  // Country: 3-octet string, triplets, one zero pad octet when the length would be odd
            M::country_params v;
            bool bad = s.chance(10);
            size_t cl = bad ? (s.boolean() ? 2 : 4) : 3;
            for (size_t i = 0; i < cl; ++i) v.country += (char)('A' + s.u8() % 26);
            e.str(v.country);
            size_t n = 1 + s.range(0, 4);
            for (size_t i = 0; i < n; ++i) {
                uint8_t a = G<uint8_t>(s), b = G<uint8_t>(s), c = G<uint8_t>(s);
                v.first_channel.push_back(a); v.number_channels.push_back(b); v.max_transmit_power.push_back(c);
                e.u8(a).u8(b).u8(c);
            }
            e.pad_to(2);
            const std::string arg = rstr(v);
            if (s.boolean()) { v = M::country_params(v.country, v.first_channel, v.number_channels, v.max_transmit_power); r.label = "dot11-struct-ctor"; }
            TS_SET("country", 7, "country", arg, ([&p, v] { p.country(v); }));
            if (bad) r.must_throw = "Tins::invalid_option_value";
            break;
        }
        case 15: pair8("fh_parameters", 8, &M::fh_parameters); break;
        case 16: {
            M::fh_pattern_type v = G<M::fh_pattern_type>(s);
            if (v.random_table.size() > 251) v.random_table.resize(251);
            e.u8(v.flag).u8(v.number_of_sets).u8(v.modulus).u8(v.offset).raw(v.random_table);
            const std::string arg = rstr(v);
            if (s.boolean()) { v = M::fh_pattern_type(v.flag, v.number_of_sets, v.modulus, v.offset, v.random_table); r.label = "dot11-struct-ctor"; }
            TS_SET("fh_pattern_table", 9, "fh_pattern_table", arg, ([&p, v] { p.fh_pattern_table(v); }));
            break;
        }
        case 17: u8v("power_constraint", 32, &M::power_constraint); break;
        case 18: {
            M::channel_switch_type v = G<M::channel_switch_type>(s);
            e.u8(v.switch_mode).u8(v.new_channel).u8(v.switch_count);
            const std::string arg = rstr(v);
            if (s.boolean()) { v = M::channel_switch_type(v.switch_mode, v.new_channel, v.switch_count); r.label = "dot11-struct-ctor"; }
            TS_SET("channel_switch", 37, "channel_switch", arg, ([&p, v] { p.channel_switch(v); }));
            break;
        }
        case 19: {
            M::quiet_type v = G<M::quiet_type>(s);
            e.u8(v.quiet_count).u8(v.quiet_period).le16(v.quiet_duration).le16(v.quiet_offset);
            const std::string arg = rstr(v);
            if (s.boolean()) { v = M::quiet_type(v.quiet_count, v.quiet_period, v.quiet_duration, v.quiet_offset); r.label = "dot11-struct-ctor"; }
            TS_SET("quiet", 40, "quiet", arg, ([&p, v] { p.quiet(v); }));
            break;
        }
        case 20: pair8("tpc_report", 35, &M::tpc_report); break;
        case 21: u8v("erp_information", 42, &M::erp_information); break;
        case 22: {
            M::bss_load_type v = G<M::bss_load_type>(s);
            e.le16(v.station_count).u8(v.channel_utilization).le16(v.available_capacity);
            const std::string arg = rstr(v);
            if (s.boolean()) { v = M::bss_load_type(v.station_count, v.channel_utilization, v.available_capacity); r.label = "dot11-struct-ctor"; }
            TS_SET("bss_load", 11, "bss_load", arg, ([&p, v] { p.bss_load(v); }));
            break;
        }
        case 23: {  // TIM: DTIM count, period, bitmap control, partial virtual bitmap of 1..251 octets
            M::tim_type v;
            v.dtim_count = G<uint8_t>(s); v.dtim_period = G<uint8_t>(s); v.bitmap_control = G<uint8_t>(s);
            v.partial_virtual_bitmap = s.bytes(1 + gen_len(s, 250));
            e.u8(v.dtim_count).u8(v.dtim_period).u8(v.bitmap_control).raw(v.partial_virtual_bitmap);
            const std::string arg = rstr(v);
            if (s.boolean()) { v = M::tim_type(v.dtim_count, v.dtim_period, v.bitmap_control, v.partial_virtual_bitmap); r.label = "dot11-struct-ctor"; }
            TS_SET("tim", 5, "tim", arg, ([&p, v] { p.tim(v); }));
            break;
        }
        case 24: { std::string v = GS(s, 253); e.str(v); TS_SET("challenge_text", 16, "challenge_text", rstr(v), ([&p, v] { p.challenge_text(v); })); break; }
        default: {
            M::vendor_specific_type v;
            v.oui = G<HWAddress<3> >(s);
            v.data = GB(s, 252);
            e.hw(v.oui).raw(v.data);
            TS_SET("vendor_specific", 221, "vendor_specific", rstr(v), ([&p, v] { p.vendor_specific(v); }));
            break;
        }
    }
    r.data = e.b;
    r.shown = r.arg;
    return r;
}

// typed getter name -> option code it decodes (RFC numbering), per option-bearing class; -1 = not a typed decoder we model
struct TG { OC oc; const char* getter; int code; bool presence; };
const TG TYPED_GETTERS[] = {
    {OC_TCP, "mss", 2, false}, {OC_TCP, "winscale", 3, false}, {OC_TCP, "has_sack_permitted", 4, true}, {OC_TCP, "sack", 5, false},
    {OC_TCP, "timestamp", 8, false}, {OC_TCP, "altchecksum", 14, false},
    {OC_IP, "security", 130, false}, {OC_IP, "lsrr", 131, false}, {OC_IP, "ssrr", 137, false}, {OC_IP, "record_route", 7, false},
    {OC_IP, "stream_identifier", 136, false},
    {OC_DHCP, "type", 53, false}, {OC_DHCP, "server_identifier", 54, false}, {OC_DHCP, "lease_time", 51, false}, {OC_DHCP, "renewal_time", 58, false},
    {OC_DHCP, "rebind_time", 59, false}, {OC_DHCP, "subnet_mask", 1, false}, {OC_DHCP, "routers", 3, false}, {OC_DHCP, "domain_name_servers", 6, false},
    {OC_DHCP, "broadcast", 28, false}, {OC_DHCP, "requested_ip", 50, false}, {OC_DHCP, "domain_name", 15, false}, {OC_DHCP, "hostname", 12, false},
    {OC_DHCPV6, "ia_na", 3, false}, {OC_DHCPV6, "ia_ta", 4, false}, {OC_DHCPV6, "ia_address", 5, false}, {OC_DHCPV6, "option_request", 6, false},
    {OC_DHCPV6, "preference", 7, false}, {OC_DHCPV6, "elapsed_time", 8, false}, {OC_DHCPV6, "relay_message", 9, false}, {OC_DHCPV6, "authentication", 11, false},
    {OC_DHCPV6, "server_unicast", 12, false}, {OC_DHCPV6, "status_code", 13, false}, {OC_DHCPV6, "has_rapid_commit", 14, true}, {OC_DHCPV6, "user_class", 15, false},
    {OC_DHCPV6, "vendor_class", 16, false}, {OC_DHCPV6, "vendor_info", 17, false}, {OC_DHCPV6, "interface_id", 18, false}, {OC_DHCPV6, "reconfigure_msg", 19, false},
    {OC_DHCPV6, "has_reconfigure_accept", 20, true}, {OC_DHCPV6, "client_id", 1, false}, {OC_DHCPV6, "server_id", 2, false},
    {OC_PPPOE, "service_name", 0x0101, false}, {OC_PPPOE, "ac_name", 0x0201, false}, {OC_PPPOE, "host_uniq", 0x0301, false}, {OC_PPPOE, "ac_cookie", 0x0401, false},
    {OC_PPPOE, "vendor_specific", 0x0501, false}, {OC_PPPOE, "relay_session_id", 0x1001, false}, {OC_PPPOE, "service_name_error", 0x0102, false},
    {OC_PPPOE, "ac_system_error", 0x0202, false}, {OC_PPPOE, "generic_error", 0x0302, false},
    {OC_ICMPV6, "source_link_layer_addr", 1, false}, {OC_ICMPV6, "target_link_layer_addr", 2, false}, {OC_ICMPV6, "prefix_info", 3, false},
    {OC_ICMPV6, "redirect_header", 4, false}, {OC_ICMPV6, "mtu", 5, false}, {OC_ICMPV6, "shortcut_limit", 6, false}, {OC_ICMPV6, "new_advert_interval", 7, false},
    {OC_ICMPV6, "new_home_agent_info", 8, false}, {OC_ICMPV6, "source_addr_list", 9, false}, {OC_ICMPV6, "target_addr_list", 10, false},
    {OC_ICMPV6, "rsa_signature", 12, false}, {OC_ICMPV6, "timestamp", 13, false}, {OC_ICMPV6, "nonce", 14, false}, {OC_ICMPV6, "ip_prefix", 17, false},
    {OC_ICMPV6, "link_layer_addr", 19, false}, {OC_ICMPV6, "naack", 20, false}, {OC_ICMPV6, "map", 23, false}, {OC_ICMPV6, "route_info", 24, false},
    {OC_ICMPV6, "recursive_dns_servers", 25, false}, {OC_ICMPV6, "handover_key_request", 27, false}, {OC_ICMPV6, "handover_key_reply", 28, false},
    {OC_ICMPV6, "handover_assist_info", 29, false}, {OC_ICMPV6, "mobile_node_identifier", 30, false}, {OC_ICMPV6, "dns_search_list", 31, false},
    {OC_DOT11, "ssid", 0, false}, {OC_DOT11, "rsn_information", 48, false}, {OC_DOT11, "supported_rates", 1, false}, {OC_DOT11, "extended_supported_rates", 50, false},
    {OC_DOT11, "qos_capability", 46, false}, {OC_DOT11, "power_capability", 33, false}, {OC_DOT11, "supported_channels", 36, false},
    {OC_DOT11, "request_information", 10, false}, {OC_DOT11, "fh_parameter_set", 2, false}, {OC_DOT11, "ds_parameter_set", 3, false},
    {OC_DOT11, "cf_parameter_set", 4, false}, {OC_DOT11, "ibss_parameter_set", 6, false}, {OC_DOT11, "ibss_dfs", 41, false}, {OC_DOT11, "country", 7, false},
    {OC_DOT11, "fh_parameters", 8, false}, {OC_DOT11, "fh_pattern_table", 9, false}, {OC_DOT11, "power_constraint", 32, false},
    {OC_DOT11, "channel_switch", 37, false}, {OC_DOT11, "quiet", 40, false}, {OC_DOT11, "tpc_report", 35, false}, {OC_DOT11, "erp_information", 42, false},
    {OC_DOT11, "bss_load", 11, false}, {OC_DOT11, "tim", 5, false}, {OC_DOT11, "challenge_text", 16, false}, {OC_DOT11, "vendor_specific", 221, false},
};
const TG* typed_getter(OC oc, const std::string& g) {
    for (const TG& t : TYPED_GETTERS) if (t.oc == oc && g == t.getter) return &t;
    return nullptr;
}

// ------------------------------------------------------------------------------------------------ raw option API adaptors
template <class O, class C>
O make_opt(C code, bool spoof, size_t lenfield, const std::vector<uint8_t>& d) {
    if (spoof) return O(code, (uint16_t)lenfield, d.begin(), d.end());
    return O(code, d.begin(), d.end());
}
// how the container entry is handed over: 0 = rvalue overload (add_option(option&&)), 1 = lvalue overload (add_option(const option&)),
// 2 = IPv6 only: the deprecated lvalue spelling add_ext_header(const ext_header&)
template <class P, class O> void add_opt_how(P& p, O o, unsigned how) {
    if (how) { const O& ref = o; p.add_option(ref); } else p.add_option(std::move(o));
}
void api_add(PDU& p, OC oc, uint32_t code, bool spoof, size_t lf, const std::vector<uint8_t>& d, unsigned how = 0) {
    switch (oc) {
        case OC_TCP: add_opt_how(static_cast<TCP&>(p), make_opt<TCP::option>((TCP::OptionTypes)code, spoof, lf, d), how); break;
        case OC_IP: add_opt_how(static_cast<IP&>(p), make_opt<IP::option>(IP::option_identifier((uint8_t)code), spoof, lf, d), how); break;
        case OC_IPV6: {
            IPv6::ext_header h = make_opt<IPv6::ext_header>((uint8_t)code, spoof, lf, d);
            const IPv6::ext_header& ref = h;
            if (how == 1) static_cast<IPv6&>(p).add_header(ref);
            else if (how == 2) static_cast<IPv6&>(p).add_ext_header(ref);
            else static_cast<IPv6&>(p).add_header(std::move(h));
            break;
        }
        case OC_ICMPV6: add_opt_how(static_cast<ICMPv6&>(p), make_opt<ICMPv6::option>((uint8_t)code, spoof, lf, d), how); break;
        case OC_DHCP: add_opt_how(static_cast<DHCP&>(p), make_opt<DHCP::option>((uint8_t)code, spoof, lf, d), how); break;
        case OC_DHCPV6: static_cast<DHCPv6&>(p).add_option(make_opt<DHCPv6::option>((uint16_t)code, spoof, lf, d)); break;   // one overload only
        case OC_DOT11: add_opt_how(static_cast<Dot11&>(p), make_opt<Dot11::option>((uint8_t)code, spoof, lf, d), how); break;
        case OC_PPPOE: {
            PPPoE::tag tg = make_opt<PPPoE::tag>((PPPoE::TagTypes)code, spoof, lf, d);
            const PPPoE::tag& ref = tg;
            if (how) static_cast<PPPoE&>(p).add_tag(ref); else static_cast<PPPoE&>(p).add_tag(std::move(tg));
            break;
        }
        default: break;
    }
}
// the overload is a choice drawn LAST in the step's sub-stream (older choice sequences decode to the rvalue overload)
unsigned pick_how(OC oc, Src& st) {
    unsigned h = (unsigned)st.weighted({2, 2, 1});
    if (h == 2 && oc != OC_IPV6) h = 1;
    return h;
}
const char* how_text(unsigned how) { return how == 0 ? "" : how == 1 ? " [lvalue]" : " [add_ext_header]"; }
bool has_remove(OC oc) { return oc != OC_IPV6 && oc != OC_PPPOE && oc != OC_NONE; }
bool api_remove(PDU& p, OC oc, uint32_t code) {
    switch (oc) {
        case OC_TCP: return static_cast<TCP&>(p).remove_option((TCP::OptionTypes)code);
        case OC_IP: return static_cast<IP&>(p).remove_option(IP::option_identifier((uint8_t)code));
        case OC_ICMPV6: return static_cast<ICMPv6&>(p).remove_option((ICMPv6::OptionTypes)code);
        case OC_DHCP: return static_cast<DHCP&>(p).remove_option((DHCP::OptionTypes)code);
        case OC_DHCPV6: return static_cast<DHCPv6&>(p).remove_option((DHCPv6::OptionTypes)code);
        case OC_DOT11: return static_cast<Dot11&>(p).remove_option((Dot11::OptionTypes)code);
        default: return false;
    }
}
// rendering of search_option(code): "null" or opt(code,lenfield,hex)
template <class O> std::string found_text(const O* o) { return o ? rstr(*o) : std::string("null"); }
std::string api_search(const PDU& p, OC oc, uint32_t code) {
    switch (oc) {
        case OC_TCP: return found_text(static_cast<const TCP&>(p).search_option((TCP::OptionTypes)code));
        case OC_IP: return found_text(static_cast<const IP&>(p).search_option(IP::option_identifier((uint8_t)code)));
        case OC_IPV6: return found_text(static_cast<const IPv6&>(p).search_header((IPv6::ExtensionHeader)code));
        case OC_ICMPV6: return found_text(static_cast<const ICMPv6&>(p).search_option((ICMPv6::OptionTypes)code));
        case OC_DHCP: return found_text(static_cast<const DHCP&>(p).search_option((DHCP::OptionTypes)code));
        case OC_DHCPV6: return found_text(static_cast<const DHCPv6&>(p).search_option((DHCPv6::OptionTypes)code));
        case OC_DOT11: return found_text(static_cast<const Dot11&>(p).search_option((Dot11::OptionTypes)code));
        case OC_PPPOE: return found_text(static_cast<const PPPoE&>(p).search_tag((PPPoE::TagTypes)code));
        default: return "null";
    }
}
uint32_t code_space(OC oc) { return (oc == OC_DHCPV6 || oc == OC_PPPOE) ? 0xffff : 0xff; }

// what the wire format can carry in one option of this class (body length), and in the whole option area
size_t max_opt_len(OC oc) {
    switch (oc) {
        case OC_TCP: case OC_IP: return 38;
        case OC_DHCP: case OC_DOT11: return 255;
        case OC_IPV6: return 300;
        case OC_ICMPV6: return 294;
        default: return 300;
    }
}
bool fits(const LM& m, uint32_t code, size_t len) {
    if (len > max_opt_len(m.oc)) return false;
    if (m.oc == OC_TCP || m.oc == OC_IP) {  // 4-bit header length: at most 40 octets of options
        MOpt o; o.code = code; o.data.resize(len);
        return opts_wire_size(m) + opt_wire_size(m.oc, o) <= 40;
    }
    if (m.oc == OC_ICMPV6) return (len + 2) % 8 == 0;  // length counted in units of 8 octets, no padding defined for raw options
    return true;
}

// ------------------------------------------------------------------------------------------------ header_size from the format definitions
long model_header_size(const LM& m, const PDU& p) {
    const std::string& c = m.cls;
    auto num = [&](const char* k, long d) { return atol(m.get(k, std::to_string(d)).c_str()); };
    if (c == "TCP" || c == "IP") return 20 + (long)((opts_wire_size(m) + 3) / 4 * 4);
    if (c == "IPv6") return 40 + (long)opts_wire_size(m);
    if (c == "UDP") return 8;
    if (c == "EthernetII" || c == "Dot3") return 14;
    if (c == "SLL") return 16;
    if (c == "Loopback" || c == "Dot1Q" || c == "MPLS") return 4;
    if (c == "SNAP") return 8;
    if (c == "ARP") return 28;
    if (c == "PPPoE") return 6 + (long)opts_wire_size(m);
    if (c == "DHCP") return 236 + 4 + (long)opts_wire_size(m);  // BOOTP fixed part + magic cookie + options
    if (c == "BootP") return 236 + m.vend_size;                 // RFC 951: 236 octets before the vendor area
    if (c == "DHCPv6") { long t = num("msg_type", 0); return ((t == 12 || t == 13) ? 34 : 4) + (long)opts_wire_size(m); }
    if (c == "ICMP") { long t = num("type", 8); return 8 + ((t == 13 || t == 14) ? 12 : (t == 17 || t == 18) ? 4 : 0); }
    if (c == "RTP") return 12 + 4 * (long)m.csrc.size() + (num("extension_bit", 0) ? 4 + 4 * (long)m.ext.size() : 0);
    if (c == "ICMPv6") {
        long t = num("type", 128), sz = 8 + (long)opts_wire_size(m);
        if (t == 135 || t == 136 || t == 137) sz += 16;  // target address
        if (t == 137) sz += 16;                          // destination address
        if (t == 134) sz += 8;                           // reachable time, retransmit timer
        if (t == 130 || t == 143) return -1;             // MLD bodies: sized by C02
        return sz;
    }
    if (m.oc == OC_DOT11) {
        long sz = 24 + (long)opts_wire_size(m);
        if (num("to_ds", 0) && num("from_ds", 0)) sz += 6;
        if (c == "Dot11Beacon" || c == "Dot11ProbeResponse") sz += 12;
        else if (c == "Dot11AssocRequest") sz += 4;
        else if (c == "Dot11AssocResponse" || c == "Dot11ReAssocResponse" || c == "Dot11Authentication") sz += 6;
        else if (c == "Dot11ReAssocRequest") sz += 10;
        else if (c == "Dot11Disassoc" || c == "Dot11Deauthentication") sz += 2;
        return sz;
    }
    (void)p;
    return -1;
}

// ------------------------------------------------------------------------------------------------ the program
struct Prog {
    Src& s;
    Ctx& ctx;
    std::unique_ptr<PDU> top;
    std::vector<PDU*> layers;
    std::vector<LM> model;
    std::vector<std::string> text;
    const Entry* entry = nullptr;   // how the serialisation is parsed again
    unsigned removes_after_add = 0, typed_opts = 0, raw_opts = 0, heap_opts = 0, mod7_opts = 0, spoofed = 0, clones = 0, serialized = 0;
    size_t max_payload;

    Prog(Src& src, Ctx& c) : s(src), ctx(c), max_payload(c.tier ? 1200 : 200) {}

    std::string program() const {
        std::string t;
        for (const std::string& p : text) { if (!t.empty()) t += "; "; t += p; }
        return t;
    }
    void relink() {
        layers.clear();
        for (PDU* p = top.get(); p; p = p->inner_pdu()) layers.push_back(p);
    }
    void add(PDU* p, const char* cls) {
        push_inner(top, p);
        LM m;
        m.cls = cls;
        m.oc = oc_of(*p);
        model.push_back(m);
        stack_text += (stack_text.empty() ? "" : " / ") + std::string(cls);
    }
    std::string stack_text;
    bool four_addr = false;
    RawPDU* raw(bool nonempty = false) {
        size_t n = gen_len(s, max_payload);
        if (nonempty && !n) n = 1;
        std::vector<uint8_t> b = s.bytes(n);
        return new RawPDU(b.begin(), b.end());
    }
    void add_raw(bool nonempty = false) {
        RawPDU* r = raw(nonempty);
        add(r, "RawPDU");
        model.back().f["payload"] = rstr(r->payload());
    }
    const Entry* entry_named(const std::string& n) {
        for (const Entry& e : entries()) if (n == e.name) return &e;
        return nullptr;
    }

    // ---- layer stack that libtins can parse back (see findings/C04.md for the grammar and why each restriction exists)
    void transport_and_payload(bool v6, bool icmp_ok) {
        switch (s.weighted({4, 7, 5, 1})) {
            case 0:
                add(new TCP((uint16_t)s.edgy(16), (uint16_t)s.edgy(16)), "TCP");
                if (s.chance(70)) add_raw();
                break;
            case 1:
                add(new UDP((uint16_t)s.edgy(16), (uint16_t)s.edgy(16)), "UDP");
                switch (s.weighted({2, 5, 5, 4, 1, 1})) {
                    case 0: add_raw(); break;
                    case 1: add(new DHCP(), "DHCP"); break;
                    case 2: add(new DHCPv6(), "DHCPv6"); break;
                    case 3: add(new RTP(), "RTP"); if (s.chance(70)) add_raw(true); break;
                    case 4: add(new BootP(), "BootP"); break;
                    default: break;
                }
                break;
            case 2:
                if (!icmp_ok) { add_raw(true); break; }
                if (v6) { add(new ICMPv6(), "ICMPv6"); if (s.chance(20)) add_raw(true); }
                else { add(new ICMP(), "ICMP"); if (s.chance(70)) add_raw(true); }
                break;
            default: add_raw(true); break;
        }
    }
    void network(bool allow_arp, bool allow_eapol, bool only_ip) {
        unsigned c = (unsigned)s.weighted({7, 10, 1, 1, 1, 1, 2, 1, 1, 1});
        if (only_ip && c > 1 && (c < 3 || c > 7)) c = c & 1;
        if (c == 2 && !allow_arp) c = 0;
        if (c == 8 && !allow_eapol) c = 1;
        switch (c) {
            case 0: add(new IP("10.1.2.3", "10.3.2.1"), "IP"); transport_and_payload(false, true); break;
            case 1: add(new IPv6("fe80::1", "fe80::2"), "IPv6"); transport_and_payload(true, true); break;
            case 2: add(new ARP(), "ARP"); break;
            case 3: add(new IP("10.1.2.3", "10.3.2.1"), "IP"); add(new IP("192.168.0.1", "192.168.0.2"), "IP"); transport_and_payload(false, true); break;
            case 4: add(new IP("10.1.2.3", "10.3.2.1"), "IP"); add(new IPv6("fe80::1", "fe80::2"), "IPv6"); transport_and_payload(true, true); break;
            case 5: add(new IPv6("fe80::1", "fe80::2"), "IPv6"); add(new IP("10.1.2.3", "10.3.2.1"), "IP"); transport_and_payload(false, true); break;
            case 6: add(new IP("10.1.2.3", "10.3.2.1"), "IP"); add(new IPSecAH(), "IPSecAH"); transport_and_payload(false, false); break;
            case 7: add(new IP("10.1.2.3", "10.3.2.1"), "IP"); add(new IPSecESP(), "IPSecESP"); add_raw(true); break;
            case 8: if (s.boolean()) add(new RSNEAPOL(), "RSNEAPOL"); else add(new RC4EAPOL(), "RC4EAPOL"); break;
            default: add_raw(true); break;
        }
    }
    void build_stack() {
        bool ether_like = false;  // the layer above carries an ethertype
        bool closed = false;
        std::string root;
        switch (s.weighted({6, 1, 1, 1, 2, 5, 5})) {
            case 0: add(new EthernetII(), "EthernetII"); ether_like = true; break;
            case 1:
                add(new Dot3(), "Dot3"); add(new LLC(), "LLC");
                if (s.boolean()) add(new STP(), "STP"); else add_raw(true);
                closed = true;
                break;
            case 2: add(new SLL(), "SLL"); ether_like = true; break;
            case 3: add(new Loopback(), "Loopback"); network(false, false, true); closed = true; break;
            case 4: {
                if (s.chance(30)) add(new RadioTap(), "RadioTap");
                {
                    const bool qos = !s.boolean();
                    Dot11Data* d = qos ? new Dot11QoSData() : new Dot11Data();
                    // a third of the data frames are four-address (WDS) frames from the start: both DS bits and address 4;
                    // decided by the RadioTap draw above and the frame kind (no further choice byte)
                    if ((stack_text.empty()) == qos) {
                        d->to_ds(1); d->from_ds(1);
                        d->addr4(Dot11::address_type("02:04:06:08:0a:0c"));
                        four_addr = true;
                    }
                    add(d, qos ? "Dot11QoSData" : "Dot11Data");
                }
                add(new SNAP(), "SNAP");
                ether_like = true;
                break;
            }
            case 5: {
                bool rt = s.chance(25);
                if (rt) add(new RadioTap(), "RadioTap");
                switch (s.chance(70) ? s.range(0, 9) : s.range(0, rt ? 16 : 18)) {
                    case 0: add(new Dot11Beacon(), "Dot11Beacon"); break;
                    case 1: add(new Dot11ProbeRequest(), "Dot11ProbeRequest"); break;
                    case 2: add(new Dot11ProbeResponse(), "Dot11ProbeResponse"); break;
                    case 3: add(new Dot11AssocRequest(), "Dot11AssocRequest"); break;
                    case 4: add(new Dot11AssocResponse(), "Dot11AssocResponse"); break;
                    case 5: add(new Dot11ReAssocRequest(), "Dot11ReAssocRequest"); break;
                    case 6: add(new Dot11ReAssocResponse(), "Dot11ReAssocResponse"); break;
                    case 7: add(new Dot11Disassoc(), "Dot11Disassoc"); break;
                    case 8: add(new Dot11Authentication(), "Dot11Authentication"); break;
                    case 9: add(new Dot11Deauthentication(), "Dot11Deauthentication"); break;
                    case 10: add(new Dot11RTS(), "Dot11RTS"); break;
                    case 11: add(new Dot11PSPoll(), "Dot11PSPoll"); break;
                    case 12: add(new Dot11CFEnd(), "Dot11CFEnd"); break;
                    case 13: add(new Dot11EndCFAck(), "Dot11EndCFAck"); break;
                    case 14: add(new Dot11Ack(), "Dot11Ack"); break;
                    case 15: add(new Dot11BlockAckRequest(), "Dot11BlockAckRequest"); break;
                    case 16: add(new Dot11BlockAck(), "Dot11BlockAck"); break;
                    case 17: add(new Dot11(), "Dot11"); break;          // plain header: only parsable through its own constructor
                    default: add(new Dot11Control(), "Dot11Control"); break;
                }
                closed = true;
                break;
            }
            default: network(false, false, false); closed = true; break;  // no link layer
        }
        if (!closed) {
            bool vlan_ok = true;
            unsigned nv = (unsigned)s.weighted({7, 2, 1});
            for (unsigned i = 0; i < nv && vlan_ok; ++i) add(new Dot1Q(), "Dot1Q");
            unsigned mid = (unsigned)s.weighted({12, 1, 3});
            if (mid == 1) {
                unsigned nm = 1 + (unsigned)s.range(0, 2);
                for (unsigned i = 0; i < nm; ++i) add(new MPLS(), "MPLS");
                network(false, false, true);
            } else if (mid == 2) {
                add(new PPPoE(), "PPPoE");
                if (s.chance(30)) add_raw(true);  // session packet; otherwise a discovery packet (tags)
            } else {
                network(true, ether_like, false);
            }
        }
        relink();
        text.push_back("stack " + stack_text);
        std::string r = model[0].cls;
        entry = entry_named(r);
    }

    // ---- oracle after a step: layer i against its model
    std::string expected_typed(const LM& m, const std::vector<MOpt>& list, const std::string& getter, bool& claim) const {
        claim = false;
        const TG* tg = typed_getter(m.oc, getter);
        if (!tg) return "";
        const MOpt* first = nullptr;
        for (const MOpt& o : list) if ((int)o.code == tg->code) { first = &o; break; }
        claim = true;
        if (tg->presence) return first ? "1" : "0";
        if (!first) return "<Tins::option_not_found>";
        if (first->typed == getter) return first->arg;
        claim = false;  // first option with that code was put there raw (or by another setter): no claim about its decoding
        return "";
    }
    void check_layer(size_t i, const std::string& kind, const std::string& name, uint32_t touched = 0xffffffffu) {
        const PDU& p = *layers[i];
        const LM& m = model[i];
        LayerView v = view_layer(p);
        std::string tail = ":" + kind + (name.empty() ? "" : ":" + name);
        std::string ctxt = m.cls + " (layer " + std::to_string(i) + ") after " + kind + " " + name + " | program: " + program();
        VCHECK(ctx, v.cls == m.cls, "C04:layer-class-changed:" + m.cls, v.cls << " " << ctxt);
        for (const FieldView& fv : v.fields) {
            if (fv.kind == 'O' && m.oc != OC_NONE && fv.name == list_name(m.oc)) {
                std::string exp = render_list(m.oc, m.opts, false);
                VCHECK(ctx, fv.value == exp, "C04:" + m.cls + ":option-list" + tail, fv.name << "() = " << fv.value << " model = " << exp << " | " << ctxt);
                continue;
            }
            if (fv.kind == 'X') {
                bool claim;
                std::string exp = expected_typed(m, m.opts, fv.name, claim);
                if (claim) VCHECK(ctx, fv.value == exp, "C04:" + m.cls + ":typed-getter:" + fv.name + tail, fv.name << "() = " << fv.value << " expected " << exp << " | " << ctxt);
                continue;
            }
            if (fv.kind == 'S') {
                if (fv.name == "header_size") {
                    long e = model_header_size(m, p);
                    if (e >= 0) VCHECK(ctx, fv.value == std::to_string(e), "C04:" + m.cls + ":header_size" + tail, "header_size() = " << fv.value << " model = " << e << " | " << ctxt);
                }
                continue;
            }
            auto it = m.f.find(fv.name);
            if (it != m.f.end())
                VCHECK(ctx, fv.value == it->second, "C04:" + m.cls + ":getter:" + fv.name + tail, fv.name << "() = " << fv.value << " last set " << it->second << " | " << ctxt);
        }
        if (m.oc != OC_NONE) {
            std::vector<uint32_t> probe;
            if (touched != 0xffffffffu) probe.push_back(touched);
            for (const MOpt& o : m.opts) {
                if (probe.size() >= 6) break;
                if (std::find(probe.begin(), probe.end(), o.code) == probe.end()) probe.push_back(o.code);
            }
            for (uint32_t c = 200; c < 210; ++c) if (!m.first(c)) { probe.push_back(c); break; }
            for (uint32_t c : probe) {
                const MOpt* f = m.first(c);
                std::string exp = "null";
                if (f) { std::vector<MOpt> one(1, *f); exp = render_list(m.oc, one, false); exp = exp.substr(1, exp.size() - 2); }
                std::string got = api_search(p, m.oc, c);
                VCHECK(ctx, got == exp, "C04:" + m.cls + ":search" + tail, "search(" << c << ") = " << got << " model (first match) = " << exp << " | " << ctxt);
            }
        }
        if (const FieldView* cf = v.find("capabilities")) {
            // cap{b0 b1 ... b15}: every bit that was set through capabilities().<flag>(bool) reads back as last set
            for (unsigned b = 0; b < 16; ++b) {
                if (m.cap[b] < 0 || cf->value.size() != 21) continue;
                VCHECK(ctx, cf->value[4 + b] == (m.cap[b] ? '1' : '0'), "C04:" + m.cls + ":getter:capabilities" + tail,
                       "capabilities() = " << cf->value << " but B" << b << " was last set to " << m.cap[b] << " | " << ctxt);
            }
        }
        if (m.cls == "Dot1Q" && m.get("append_padding", "1") == "0") {
            // dot1q.h: the flag says "whether padding will be appended at the end of this packet"
            const FieldView* tf = v.find("trailer_size");
            VCHECK(ctx, tf && tf->value == "0", "C04:Dot1Q:trailer-with-padding-disabled" + tail, "trailer_size() = " << (tf ? tf->value : "?") << " | " << ctxt);
        }
        if (m.cls == "RTP") {
            RTP& r = const_cast<RTP&>(static_cast<const RTP&>(p));
            for (uint32_t x : m.csrc) VCHECK(ctx, r.search_csrc_id(x), "C04:RTP:search_csrc_id" + tail, x << " | " << ctxt);
            // "true if ... found, false otherwise": a value that is not in the list, and the extension words (held only while X = 1)
            {
                uint32_t absent = 0x5a5a5a5au;
                while (std::find(m.csrc.begin(), m.csrc.end(), absent) != m.csrc.end()) ++absent;
                VCHECK(ctx, !r.search_csrc_id(absent), "C04:RTP:search_csrc_id-absent" + tail, absent << " | " << ctxt);
                const bool xbit = m.get("extension_bit", "0") != "0";
                if (m.f.count("extension_data")) {
                    if (xbit) {
                        // (a list filled to capacity holds 65535 words: probe its two ends rather than all of it)
                        size_t n = m.ext.size(), stepk = n > 512 ? n / 256 : 1;
                        for (size_t k = 0; k < n; k += (k < 128 || k + 128 >= n) ? 1 : stepk)
                            VCHECK(ctx, r.search_extension_data(m.ext[k]), "C04:RTP:search_extension_data" + tail, m.ext[k] << " | " << ctxt);
                    }
                    absent = 0xa5a5a5a5u;
                    while (std::find(m.ext.begin(), m.ext.end(), absent) != m.ext.end()) ++absent;
                    VCHECK(ctx, !r.search_extension_data(absent), "C04:RTP:search_extension_data-absent" + tail, absent << " | " << ctxt);
                }
            }
        }
        // the generic decoders option.to<T>() against reference conversions of the option's bytes
        if (m.oc != OC_NONE && kind != "set") {
            switch (m.oc) {
                case OC_TCP: for (const TCP::option& o : static_cast<const TCP&>(p).options()) optconv::check(ctx, o, ctxt); break;
                case OC_IP: for (const IP::option& o : static_cast<const IP&>(p).options()) optconv::check(ctx, o, ctxt); break;
                case OC_ICMPV6: for (const ICMPv6::option& o : static_cast<const ICMPv6&>(p).options()) optconv::check(ctx, o, ctxt); break;
                case OC_DHCP: for (const DHCP::option& o : static_cast<const DHCP&>(p).options()) optconv::check(ctx, o, ctxt); break;
                case OC_DHCPV6: for (const DHCPv6::option& o : static_cast<const DHCPv6&>(p).options()) optconv::check(ctx, o, ctxt); break;
                case OC_DOT11: for (const Dot11::option& o : static_cast<const Dot11&>(p).options()) optconv::check(ctx, o, ctxt); break;
                case OC_PPPOE: for (const PPPoE::tag& o : static_cast<const PPPoE&>(p).tags()) optconv::check(ctx, o, ctxt); break;
                case OC_IPV6: for (const IPv6::ext_header& o : static_cast<const IPv6&>(p).headers()) optconv::check(ctx, o, ctxt); break;
                default: break;
            }
        }
    }
    void check_all(const std::string& kind, const std::string& name) {
        VCHECK(ctx, layers.size() == model.size(), "C04:layer-count-changed:" + kind, layers.size() << " vs " << model.size() << " | " << program());
        for (size_t i = 0; i < layers.size() && i < model.size(); ++i) check_layer(i, kind, name);
    }

    // ---- steps
    static std::string be_words(const std::vector<uint32_t>& v) {  // RTP keeps the words in network byte order
        std::vector<uint32_t> w;
        for (uint32_t x : v) { uint8_t b[4] = {(uint8_t)(x >> 24), (uint8_t)(x >> 16), (uint8_t)(x >> 8), (uint8_t)x}; uint32_t y; memcpy(&y, b, 4); w.push_back(y); }
        return rstr(w);
    }
    static std::string ext_text(const std::vector<IExt>& l) {
        std::ostringstream os;
        os << "exts{v=2;res=0;[";
        for (size_t i = 0; i < l.size(); ++i) { if (i) os << ","; os << "ext(" << (int)l[i].cls << "," << (int)l[i].type << "," << rstr(l[i].payload) << ")"; }
        os << "]}";
        return os.str();
    }
    bool no_more_options(size_t i) const {
        const LM& m = model[i];
        if (m.oc == OC_PPPOE && layers[i]->inner_pdu()) return true;  // session packet: tags only exist in discovery packets
        if (!m.iext.empty()) return true;                             // ICMPv6: options (ND messages) and RFC 4884 extensions (time exceeded) exclude each other
        if (m.oc == OC_ICMPV6 && layers[i]->inner_pdu()) return true;   // ND options run to the end of the packet: no payload can follow them
        return false;
    }
    void count_opt(const MOpt& o) {
        if (o.data.size() > 8) ++heap_opts;
        if (o.data.size() % 8 == 7) ++mod7_opts;
        if (o.spoofed()) ++spoofed;
    }
    void scalar_step(size_t i, Src& st) {
        PDU& p = *layers[i];
        LM& m = model[i];
        unsigned n = c04s::n_setters(p);
        if (!n) return;
        c04s::SetterCtx sc(st);
        sc.under_mpls = i > 0 && model[i - 1].cls == "MPLS";
        sc.stp_below = i + 1 < model.size() && model[i + 1].cls == "STP";
        sc.has_inner = p.inner_pdu() != nullptr;
        unsigned k = (unsigned)st.pick(n), tries = 0;
        for (; tries < n; ++tries, k = (k + 1) % n) {
            sc.probe = true;
            c04s::apply_setter(p, k, sc);
            if (c04s::allowed(sc)) break;
        }
        if (tries == n) return;
        sc.probe = false;
        c04s::apply_setter(p, k, sc);
        text.push_back("L" + std::to_string(i) + " " + sc.cls + "::" + sc.name + "(" + sc.value + ")" + (sc.threw.empty() ? "" : " threw " + sc.threw));
        if (sc.threw.empty()) {
            m.f[sc.getter] = sc.value;
            forget_aliases(m, sc.getter);
        }
        if (sc.cls == "RC4EAPOL" && sc.name == "key") {  // the key length field is not derived: a program that sets a key sets its length
            RC4EAPOL& e = static_cast<RC4EAPOL&>(p);
            uint16_t len = (uint16_t)e.key().size();
            e.key_length(len);
            m.f["key_length"] = rstr(len);
            text.push_back("L" + std::to_string(i) + " RC4EAPOL::key_length(" + std::to_string(len) + ")");
        }
        ctx.label(std::string("setter-kind-") + sc.kind);
        check_layer(i, "set", sc.cls + "." + sc.name);
    }
    void typed_step(size_t i, Src& st) {
        PDU& p = *layers[i];
        LM& m = model[i];
        if (no_more_options(i)) return;
        TStep t;
        switch (m.oc) {
            case OC_TCP: t = typed_tcp(static_cast<TCP&>(p), st); break;
            case OC_IP: t = typed_ip(static_cast<IP&>(p), st); break;
            case OC_ICMPV6: t = typed_icmpv6(static_cast<ICMPv6&>(p), st); break;
            case OC_DHCP: t = typed_dhcp(static_cast<DHCP&>(p), st); break;
            case OC_DHCPV6: t = typed_dhcpv6(static_cast<DHCPv6&>(p), st); break;
            case OC_DOT11: t = typed_dot11(static_cast<Dot11ManagementFrame&>(p), st); break;
            case OC_PPPOE: t = typed_pppoe(static_cast<PPPoE&>(p), st); break;
            default: raw_add(i, st, false); return;  // IPv6 has no typed extension header setters
        }
        std::string line = "L" + std::to_string(i) + " " + m.cls + "::" + t.name + "(" + t.shown + ")" + (t.label.empty() ? "" : " [" + t.label + "]");
        if (t.must_throw.empty() && !fits(m, t.code, t.data.size())) {
            ctx.excluded("option-beyond-format-capacity");
            return;
        }
        std::string threw;
        try {
            t.call();
        } catch (const exception_base& e) {
            threw = demangled(typeid(e));
        }
        if (!t.must_throw.empty()) {
            text.push_back(line + " threw " + threw);
            VCHECK(ctx, threw == t.must_throw, "C04:" + m.cls + ":typed-setter-invalid-argument:" + t.name, "expected " << t.must_throw << " got '" << threw << "' | " << program());
            check_layer(i, "typed-rejected", t.name, t.code);
            return;
        }
        text.push_back(line + (threw.empty() ? "" : " threw " + threw));
        if (!threw.empty()) VFAIL(ctx, "C04:" + m.cls + ":typed-setter-throws:" + t.name + ":" + threw, program());
        MOpt o;
        o.code = t.code;
        o.data = t.data;
        if (t.rate_flags) {  // take bit 7 of every rate octet from libtins, everything else from the reference
            const Dot11::options_type& l = static_cast<const Dot11&>(p).options();
            if (!l.empty() && l.back().data_size() == o.data.size())
                for (size_t k = 0; k < o.data.size(); ++k) o.data[k] |= l.back().data_ptr()[k] & 0x80;
        }
        o.lenfield = o.data.size();
        o.wire = o.data;
        o.typed = t.getter;
        o.arg = t.arg;
        m.opts.push_back(o);
        ++typed_opts;
        count_opt(o);
        ctx.label("typed:" + m.cls);
        if (!t.label.empty()) ctx.label(t.label);
        check_layer(i, "typed", t.name, t.code);
    }
    uint32_t pick_code(const LM& m, Src& st) {
        uint32_t space = code_space(m.oc);
        if (m.oc == OC_IPV6) { static const uint8_t EH[] = {0, 43, 60, 51, 135, 44}; return EH[st.weighted({4, 3, 3, 1, 2, 1})]; }
        switch (st.weighted({3, 3, 2})) {
            case 0: {  // a code some typed getter decodes
                std::vector<uint32_t> c;
                for (const TG& t : TYPED_GETTERS) if (t.oc == m.oc) c.push_back((uint32_t)t.code);
                if (!c.empty()) return c[st.pick(c.size())];
                return (uint32_t)st.edgy(8) & space;
            }
            case 1:
                if (!m.opts.empty()) return m.opts[st.pick(m.opts.size())].code;
                return (uint32_t)st.range(0, 16);
            default: return (uint32_t)st.edgy(space == 0xff ? 8 : 16) & space;
        }
    }
    void raw_add(size_t i, Src& st, bool readd) {
        PDU& p = *layers[i];
        LM& m = model[i];
        if (m.oc == OC_NONE || no_more_options(i)) return;
        uint32_t code;
        if (readd && !m.removed_codes.empty()) { auto it = m.removed_codes.begin(); std::advance(it, st.pick(m.removed_codes.size())); code = *it; }
        else code = pick_code(m, st);
        size_t len = gen_len(st, max_opt_len(m.oc));
        if ((m.oc == OC_TCP || m.oc == OC_IP) && code <= 1) len = 0;      // EOL / NOP are single octets: no body representable
        if (m.oc == OC_DHCP && (code == 0 || code == 255)) len = 0;       // PAD / END likewise
        if (m.oc == OC_ICMPV6) len = len / 8 * 8 + 6;                     // units of 8 octets
        if (m.oc == OC_TCP || m.oc == OC_IP) {
            size_t used = opts_wire_size(m);
            size_t room = used + 2 <= 40 ? 40 - used - 2 : 0;
            if (code > 1 && len > room) len = room;
        }
        std::vector<uint8_t> d = st.bytes(len);
        bool spoof = m.oc != OC_IPV6 && st.chance(3);
        size_t lf = spoof ? (size_t)st.range(0, 40) : len;
        if (lf == len) spoof = false;
        if (!fits(m, code, len)) { ctx.excluded("option-beyond-format-capacity"); return; }
        const unsigned how = pick_how(m.oc, st);
        std::string line = "L" + std::to_string(i) + " " + m.cls + "::add(" + code_text(m.oc, code) + "," + std::to_string(lf) + "," + hexs(d) + ")" + how_text(how);
        try {
            api_add(p, m.oc, code, spoof, lf, d, how);
        } catch (const exception_base& e) {
            text.push_back(line);
            VFAIL(ctx, "C04:" + m.cls + ":add-throws:" + demangled(typeid(e)), program());
        }
        text.push_back(line);
        MOpt o;
        o.code = code;
        o.data = d;
        o.lenfield = lf;
        o.wire = d;
        if (m.oc == OC_IPV6) while ((o.wire.size() + 2) % 8) o.wire.push_back(0);  // RFC 8200 4: extension headers are multiples of 8 octets
        m.opts.push_back(o);
        ++raw_opts;
        count_opt(o);
        ctx.label(readd ? "re-add" : "raw-add");
        if (how) ctx.label("add-lvalue-overload");
        check_layer(i, readd ? "re-add" : "add", "", code);
    }
    void remove_step(size_t i, Src& st) {
        PDU& p = *layers[i];
        LM& m = model[i];
        if (!has_remove(m.oc)) { raw_add(i, st, false); return; }
        uint32_t code = (!m.opts.empty() && st.chance(75)) ? m.opts[st.pick(m.opts.size())].code : pick_code(m, st);
        bool expect = m.first(code) != nullptr;
        bool got = api_remove(p, m.oc, code);
        text.push_back("L" + std::to_string(i) + " " + m.cls + "::remove(" + code_text(m.oc, code) + ")=" + (got ? "true" : "false"));
        VCHECK(ctx, got == expect, "C04:" + m.cls + ":remove-result", "remove returned " << got << " model says " << expect << " | " << program());
        if (expect) {
            for (size_t k = 0; k < m.opts.size(); ++k) if (m.opts[k].code == code) { m.opts.erase(m.opts.begin() + k); break; }
            m.removed_codes.insert(code);
            ++removes_after_add;
            ctx.label("remove-after-add");
        }
        check_layer(i, "remove", "", code);
    }
    void list_step(size_t i, Src& st) {  // RTP CSRC ids / extension words, ICMP(v6) RFC 4884 extension objects
        PDU& p = *layers[i];
        LM& m = model[i];
        std::string L = "L" + std::to_string(i) + " ";
        if (m.cls == "RTP") {
            RTP& r = static_cast<RTP&>(p);
            unsigned op = (unsigned)st.weighted({4, 4, 2, 2});
            uint32_t v = (uint32_t)st.edgy(32);
            if (op == 2 && !m.csrc.empty() && st.chance(75)) v = m.csrc[st.pick(m.csrc.size())];
            if (op == 3 && !m.ext.empty() && st.chance(75)) v = m.ext[st.pick(m.ext.size())];
            if (op <= 1 && st.chance(op == 0 ? 6 : 2)) {   // (drawn after the step's other choices)
                // fill the list up to what its count field can say (15 CSRC ids / 65535 extension words) and try one or two
                // more: an add that does not fit must be refused with the documented std::logic_error and change nothing
                const bool ext = op == 1;
                std::vector<uint32_t>& lst = ext ? m.ext : m.csrc;
                const size_t cap = ext ? 65535 : 15;
                const size_t target = cap - 1 + ((v >> 9) & 3);
                size_t added = 0, refused = 0;
                for (size_t k = lst.size(); k < target; ++k) {
                    bool threw = false;
                    try { if (ext) r.add_extension_data((uint32_t)k); else r.add_csrc_id((uint32_t)k); }
                    catch (const std::logic_error&) { threw = true; }
                    const bool fits = lst.size() < cap;
                    if (fits != !threw) {
                        text.push_back(L + std::string("RTP bulk ") + (ext ? "add_extension_data" : "add_csrc_id") + ": element #" + std::to_string(lst.size() + 1) + (threw ? " refused" : " accepted"));
                        VFAIL(ctx, std::string("C04:RTP:") + (ext ? "extension-data" : "csrc-ids") + (threw ? ":refused-below-capacity" : ":accepted-beyond-capacity"), program());
                    }
                    if (!threw) { lst.push_back((uint32_t)k); ++added; } else ++refused;
                }
                if (ext && added) m.f["extension_bit"] = "1";
                text.push_back(L + std::string("RTP::") + (ext ? "add_extension_data" : "add_csrc_id") + " x" + std::to_string(added) + " up to capacity (" + std::to_string(refused) + " refused)");
                ctx.label(ext ? "rtp-extension-at-capacity" : "rtp-csrc-at-capacity");
            } else if (op == 0) {
                if (m.csrc.size() >= 15) { ctx.excluded("rtp-16th-csrc"); return; }  // 4-bit CSRC count
                r.add_csrc_id(v);
                m.csrc.push_back(v);
                text.push_back(L + "RTP::add_csrc_id(" + std::to_string(v) + ")");
            } else if (op == 1) {
                if (m.ext.size() >= 65535) { ctx.excluded("rtp-65536th-extension-word"); return; }  // 16-bit extension length
                r.add_extension_data(v);
                m.ext.push_back(v);
                m.f["extension_bit"] = "1";
                text.push_back(L + "RTP::add_extension_data(" + std::to_string(v) + ")");
            } else if (op == 2) {
                auto it = std::find(m.csrc.begin(), m.csrc.end(), v);
                bool expect = it != m.csrc.end(), got = r.remove_csrc_id(v);
                text.push_back(L + "RTP::remove_csrc_id(" + std::to_string(v) + ")=" + (got ? "true" : "false"));
                VCHECK(ctx, got == expect, "C04:RTP:remove_csrc_id-result", program());
                if (expect) { m.csrc.erase(it); ++removes_after_add; ctx.label("remove-after-add"); }
            } else {
                bool bit = m.get("extension_bit", "0") != "0";
                auto it = std::find(m.ext.begin(), m.ext.end(), v);
                bool expect = bit && it != m.ext.end(), got = r.remove_extension_data(v);
                text.push_back(L + "RTP::remove_extension_data(" + std::to_string(v) + ")=" + (got ? "true" : "false"));
                VCHECK(ctx, got == expect, "C04:RTP:remove_extension_data-result", program());
                if (expect) { m.ext.erase(it); if (m.ext.empty()) m.f["extension_bit"] = "0"; ++removes_after_add; ctx.label("remove-after-add"); }
            }
            m.f["csrc_ids"] = be_words(m.csrc);
            m.f["extension_data"] = be_words(m.ext);
            ctx.label("rtp-list-op");
            check_layer(i, "rtp-list", "");
            return;
        }
        if (m.cls == "ICMP" || m.cls == "ICMPv6") {
            // RFC 4884: extensions follow an "original datagram" field of at least 128 octets: only representable with a payload
            if (!p.inner_pdu() || !m.opts.empty()) return;
            IExt x;
            x.cls = (uint8_t)st.edgy(8);
            x.type = (uint8_t)st.edgy(8);
            x.payload = st.bytes(4 * st.range(0, 8));
            if (x.payload.size() >= 4 && st.chance(60)) {
                // adversarial for checksum arithmetic (generator bias only, no oracle uses it): choose the last payload word so that the
                // one's complement sum of everything after the 4-octet structure header lands in the top 32 values, where adding the
                // first word (version/reserved) carries out of 16 bits
                std::vector<uint8_t> rest;
                auto object = [&](const IExt& o) {
                    size_t len = 4 + o.payload.size();
                    rest.push_back((uint8_t)(len >> 8)); rest.push_back((uint8_t)len); rest.push_back(o.cls); rest.push_back(o.type);
                    rest.insert(rest.end(), o.payload.begin(), o.payload.end());
                };
                for (const IExt& o : m.iext) object(o);
                x.payload[x.payload.size() - 2] = x.payload[x.payload.size() - 1] = 0;
                object(x);
                uint32_t sum = 0;
                for (size_t k = 0; k + 1 < rest.size(); k += 2) sum += (uint32_t)rest[k] | ((uint32_t)rest[k + 1] << 8);
                while (sum >> 16) sum = (sum & 0xffff) + (sum >> 16);
                uint32_t target = 0xffe0 + (uint32_t)st.range(0, 31);
                uint32_t w = (target + 0xffff - sum) % 0xffff;
                if (w == 0 && target != sum) w = 0xffff;
                x.payload[x.payload.size() - 2] = (uint8_t)w;
                x.payload[x.payload.size() - 1] = (uint8_t)(w >> 8);
                ctx.label("icmp-extension-sum-near-carry");
            }
            ICMPExtensionsStructure& exts = m.cls == "ICMP" ? static_cast<ICMP&>(p).extensions() : static_cast<ICMPv6&>(p).extensions();
            // how the object is built (choice drawn last): 0 = ICMPExtension(class, type) + payload(); 1 = default constructor + the
            // three setters; 2 = add_extension(MPLS&): RFC 4950 section 3 MPLS Label Stack object = Class-Num 1, C-Type 1, payload =
            // the label stack entries (RFC 3032 2.1: label (20) exp (3) S (1) TTL (8) per 32-bit word, S set in the last entry only)
            unsigned via = (unsigned)st.weighted({3, 1, 2});
            if (via == 2 && x.payload.empty()) via = 0;
            std::string how;
            if (via == 2) {
                const size_t n = x.payload.size() / 4;
                std::unique_ptr<MPLS> top;
                MPLS* last = nullptr;
                unsigned first_label = 0, first_exp = 0, first_ttl = 0;
                for (size_t k = 0; k < n; ++k) {
                    uint8_t* w = &x.payload[4 * k];
                    unsigned label = ((unsigned)w[0] << 12) | ((unsigned)w[1] << 4) | (w[2] >> 4), exp = (w[2] >> 1) & 7, ttl = w[3];
                    w[2] = (uint8_t)((w[2] & 0xfe) | (k + 1 == n ? 1 : 0));   // the stack the object must carry: S in the last entry only
                    MPLS* e = new MPLS();
                    e->label((small_uint<20>)label);
                    e->experimental((small_uint<3>)exp);
                    e->ttl((uint8_t)ttl);
                    e->bottom_of_stack(k + 1 == n ? 1 : 0);
                    if (!top) { top.reset(e); first_label = label; first_exp = exp; first_ttl = ttl; } else last->inner_pdu(e);
                    last = e;
                }
                x.cls = 1;
                x.type = 1;
                exts.add_extension(*top);
                how = " [from an MPLS stack of " + std::to_string(n) + "]";
                ctx.label("icmp-extension-from-mpls");
                // and back: MPLS(const ICMPExtension&) "will use the extension's payload to build this packet"
                VCHECK(ctx, !exts.extensions().empty(), "C04:" + m.cls + ":add_extension(MPLS):not-added", program());
                if (!exts.extensions().empty()) {
                    const ICMPExtension& added = exts.extensions().back();
                    VCHECK(ctx, added.extension_class() == 1 && added.extension_type() == 1, "C04:" + m.cls + ":add_extension(MPLS):class-type",
                           "class " << (int)added.extension_class() << " c-type " << (int)added.extension_type() << ", RFC 4950 assigns 1 / 1 | " << program());
                    MPLS back(added);
                    VCHECK(ctx, (unsigned)back.label() == first_label && (unsigned)back.experimental() == first_exp && back.ttl() == first_ttl &&
                                    (unsigned)back.bottom_of_stack() == (n == 1 ? 1u : 0u),
                           "C04:MPLS:from-icmp-extension", "MPLS(extension) = label " << (unsigned)back.label() << " exp " << (unsigned)back.experimental() << " S " << (unsigned)back.bottom_of_stack()
                               << " ttl " << (unsigned)back.ttl() << ", the first entry was label " << first_label << " exp " << first_exp << " ttl " << first_ttl << " | " << program());
                }
            } else {
                ICMPExtension ext = via == 1 ? ICMPExtension() : ICMPExtension(x.cls, x.type);
                if (via == 1) {
                    ext.extension_class(x.cls);
                    ext.extension_type(x.type);
                    how = " [default constructor + setters]";
                    ctx.label("icmp-extension-by-setters");
                }
                ext.payload(x.payload);
                // RFC 4884 7.1 object header: Length (16, including the header), Class-Num, C-Type; then the payload
                Enc ob;
                ob.be16(4 + x.payload.size()).u8(x.cls).u8(x.type).raw(x.payload);
                ICMPExtension::serialization_type got = ext.serialize();
                VCHECK(ctx, ext.extension_class() == x.cls && ext.extension_type() == x.type && ext.payload() == x.payload && ext.size() == ob.b.size(),
                       "C04:ICMPExtension:getter", "class/type/payload/size after construction | " << program());
                VCHECK(ctx, got == ob.b, "C04:ICMPExtension:serialize", "serialize() = " << hexs(got) << " reference " << hexs(ob.b) << " | " << program());
                exts.add_extension(ext);
            }
            m.iext.push_back(x);
            m.f["extensions"] = ext_text(m.iext);
            m.f["has_extensions"] = "1";
            text.push_back(L + m.cls + "::extensions().add_extension(" + std::to_string(x.cls) + "," + std::to_string(x.type) + "," + hexs(x.payload) + ")" + how);
            ctx.label("icmp-extension");
            check_layer(i, "icmp-extension", "");
            {
                // the structure on its own: RFC 4884 7: Version (4) = 2, Reserved (12) = 0, Checksum (16) = one's complement of the one's
                // complement sum of the structure with the checksum field zero; then the objects in order
                Enc st0;
                st0.be16(0x2000).be16(0);
                for (const IExt& o : m.iext) st0.be16(4 + o.payload.size()).u8(o.cls).u8(o.type).raw(o.payload);
                uint32_t sum = 0;
                for (size_t k = 0; k + 1 < st0.b.size(); k += 2) sum += ((uint32_t)st0.b[k] << 8) | st0.b[k + 1];
                while (sum >> 16) sum = (sum & 0xffff) + (sum >> 16);
                uint16_t ck = (uint16_t)~sum;
                st0.b[2] = (uint8_t)(ck >> 8);
                st0.b[3] = (uint8_t)ck;
                ICMPExtensionsStructure::serialization_type got = exts.serialize();
                VCHECK(ctx, exts.size() == st0.b.size(), "C04:ICMPExtensionsStructure:size", exts.size() << " vs " << st0.b.size() << " | " << program());
                VCHECK(ctx, got == st0.b, "C04:ICMPExtensionsStructure:serialize", "serialize() = " << hexs(got) << " reference " << hexs(st0.b) << " | " << program());
                const ICMPExtensionsStructure& cex = exts;
                VCHECK(ctx, cex.checksum() == ck, "C04:ICMPExtensionsStructure:checksum", "checksum() = " << cex.checksum() << " reference " << ck << " | " << program());
                VCHECK(ctx, ICMPExtensionsStructure::validate_extensions(st0.b.data(), (uint32_t)st0.b.size()), "C04:ICMPExtensionsStructure:validate-reference",
                       "the reference structure " << hexs(st0.b) << " does not validate | " << program());
                ctx.label("icmp-extension-structure-serialized");
            }
        }
    }
    // ---- building API that is neither a one-argument table setter nor an option: capability bits, ICMP composite helpers,
    //      RTP padding, BootP vend, Dot1Q::append_padding, IP::frag_off
    static int extra_weight(const std::string& c) {
        if (c == "Dot11Beacon" || c == "Dot11ProbeResponse" || c == "Dot11AssocRequest" || c == "Dot11AssocResponse" || c == "Dot11ReAssocRequest" ||
            c == "Dot11ReAssocResponse" || c == "ICMP" || c == "RTP" || c == "BootP" || c == "Dot1Q")
            return 4;
        if (c == "IP") return 1;
        return 0;
    }
    template <class T> void cap_set(PDU& p, unsigned bit, bool v) {
        Dot11ManagementFrame::capability_information& c = static_cast<T&>(p).capabilities();
        switch (bit) {   // IEEE 802.11-2012 8.4.1.4 figure 8-38, B0 .. B15
            case 0: c.ess(v); break; case 1: c.ibss(v); break; case 2: c.cf_poll(v); break; case 3: c.cf_poll_req(v); break;
            case 4: c.privacy(v); break; case 5: c.short_preamble(v); break; case 6: c.pbcc(v); break; case 7: c.channel_agility(v); break;
            case 8: c.spectrum_mgmt(v); break; case 9: c.qos(v); break; case 10: c.sst(v); break; case 11: c.apsd(v); break;
            case 12: c.radio_measurement(v); break; case 13: c.dsss_ofdm(v); break; case 14: c.delayed_block_ack(v); break;
            default: c.immediate_block_ack(v); break;
        }
    }
    void extra_step(size_t i, Src& st) {
        PDU& p = *layers[i];
        LM& m = model[i];
        const std::string L = "L" + std::to_string(i) + " " + m.cls + "::";
        static const char* CAPN[] = {"ess", "ibss", "cf_poll", "cf_poll_req", "privacy", "short_preamble", "pbcc", "channel_agility", "spectrum_mgmt", "qos",
                                     "sst", "apsd", "radio_measurement", "dsss_ofdm", "delayed_block_ack", "immediate_block_ack"};
        if (m.cls.compare(0, 5, "Dot11") == 0) {
            unsigned bit = (unsigned)st.pick(16);
            bool v = st.boolean();
            if (m.cls == "Dot11Beacon") cap_set<Dot11Beacon>(p, bit, v);
            else if (m.cls == "Dot11ProbeResponse") cap_set<Dot11ProbeResponse>(p, bit, v);
            else if (m.cls == "Dot11AssocRequest") cap_set<Dot11AssocRequest>(p, bit, v);
            else if (m.cls == "Dot11AssocResponse") cap_set<Dot11AssocResponse>(p, bit, v);
            else if (m.cls == "Dot11ReAssocRequest") cap_set<Dot11ReAssocRequest>(p, bit, v);
            else cap_set<Dot11ReAssocResponse>(p, bit, v);
            m.cap[bit] = v ? 1 : 0;
            text.push_back(L + "capabilities()." + CAPN[bit] + "(" + (v ? "1" : "0") + ")");
            ctx.label("extra:capability-bit");
            check_layer(i, "set", m.cls + ".capabilities." + CAPN[bit]);
        } else if (m.cls == "ICMP") {
            // include/tins/icmp.h: each helper sets the message type (RFC 792 numbers) and the fields named by its parameters
            ICMP& c = static_cast<ICMP&>(p);
            unsigned op = (unsigned)st.pick(9);
            uint16_t id = (uint16_t)st.edgy(16), seq = (uint16_t)st.edgy(16);
            uint8_t code = (uint8_t)st.edgy(8), octet = (uint8_t)st.edgy(8);
            bool flag = st.boolean();
            IPv4Address gw = G<IPv4Address>(st);
            auto set = [&](const char* g, const std::string& val) { m.f[g] = val; forget_aliases(m, g); };
            std::string call;
            auto echo_like = [&](const char* nm, int type) {
                set("type", std::to_string(type)); set("id", rstr(id)); set("sequence", rstr(seq));
                m.f.erase("code");   // RFC 792 fixes code 0 for these messages, the documentation names id and seq only: no claim
                call = std::string(nm) + "(" + rstr(id) + "," + rstr(seq) + ")";
            };
            switch (op) {
                case 0: c.set_echo_request(id, seq); echo_like("set_echo_request", 8); break;
                case 1: c.set_echo_reply(id, seq); echo_like("set_echo_reply", 0); break;
                case 2: c.set_info_request(id, seq); echo_like("set_info_request", 15); break;
                case 3: c.set_info_reply(id, seq); echo_like("set_info_reply", 16); break;
                case 4: c.set_dest_unreachable(); set("type", "3"); call = "set_dest_unreachable()"; break;
                case 5: c.set_time_exceeded(flag); set("type", "11"); set("code", flag ? "0" : "1"); call = std::string("set_time_exceeded(") + (flag ? "1" : "0") + ")"; break;
                case 6:
                    c.set_param_problem(flag, octet); set("type", "12");
                    if (flag) { set("code", "0"); set("pointer", rstr(octet)); } else m.f.erase("code");   // without a pointer: any code but 0 (C15 checks that)
                    call = std::string("set_param_problem(") + (flag ? "1" : "0") + "," + rstr(octet) + ")";
                    break;
                case 7: c.set_source_quench(); set("type", "4"); call = "set_source_quench()"; break;
                default: c.set_redirect(code, gw); set("type", "5"); set("code", rstr(code)); set("gateway", rstr(gw)); call = "set_redirect(" + rstr(code) + "," + rstr(gw) + ")"; break;
            }
            text.push_back(L + call);
            ctx.label("extra:icmp-helper");
            check_layer(i, "set", "ICMP." + call.substr(0, call.find('(')));
        } else if (m.cls == "RTP") {
            // RFC 3550 5.1: padding octets are a trailer whose last octet counts them; the P bit says whether there are any
            uint8_t n = st.chance(25) ? 0 : (uint8_t)st.edgy(8);
            static_cast<RTP&>(p).padding_size(n);
            m.f["padding_size"] = rstr(n);
            text.push_back(L + "padding_size(" + rstr(n) + ")");
            ctx.label("extra:rtp-padding");
            check_layer(i, "set", "RTP.padding_size");
            const RTP& r = static_cast<const RTP&>(p);
            VCHECK(ctx, (unsigned)r.padding_bit() == (n ? 1u : 0u) && r.trailer_size() == n, "C04:RTP:padding-bit-or-trailer:set:RTP.padding_size",
                   "padding_bit() = " << (unsigned)r.padding_bit() << " trailer_size() = " << r.trailer_size() << " | " << program());
        } else if (m.cls == "BootP") {
            // RFC 951: the vendor area is 64 octets; the setter takes any vector (getter, header_size and the octets behind the fixed
            // part follow it), a parser of the wire reads 64 octets: sizes other than 64 are exercised on a copy, not sent through the wire
            BootP& b = static_cast<BootP&>(p);
            std::vector<uint8_t> v64 = st.bytes(64);
            std::vector<uint8_t> odd = st.bytes((size_t)st.range(0, 96));
            {
                std::unique_ptr<BootP> c(b.clone());
                c->vend(odd);
                PDU::serialization_type y = c->serialize();
                const BootP& cc = *c;
                VCHECK(ctx, cc.vend() == odd && c->header_size() == 236 + odd.size() && y.size() == 236 + odd.size() && std::equal(odd.begin(), odd.end(), y.begin() + 236),
                       "C04:BootP:vend-of-other-size", "vend(" << odd.size() << " octets): header_size " << c->header_size() << " serialised " << y.size() << " | " << program());
            }
            b.vend(v64);
            m.f["vend"] = rstr(v64);
            m.vend_size = 64;
            text.push_back(L + "vend(" + hexs(v64) + ")");
            ctx.label("extra:bootp-vend");
            check_layer(i, "set", "BootP.vend");
        } else if (m.cls == "Dot1Q") {
            bool v = st.boolean();
            static_cast<Dot1Q&>(p).append_padding(v);
            m.f["append_padding"] = rstr(v);
            text.push_back(L + "append_padding(" + rstr(v) + ")");
            ctx.label("extra:dot1q-append-padding");
            check_layer(i, "set", "Dot1Q.append_padding");
        } else if (m.cls == "IP") {
            // deprecated 16-bit spelling of RFC 791 Flags (3) + Fragment Offset (13)
            uint16_t v = (uint16_t)st.edgy(16);
            static_cast<IP&>(p).frag_off(v);
            m.f["flags"] = std::to_string(v >> 13);
            m.f["fragment_offset"] = std::to_string(v & 0x1fff);
            text.push_back(L + "frag_off(" + std::to_string(v) + ")");
            ctx.label("extra:ip-frag-off");
            check_layer(i, "set", "IP.frag_off");
            VCHECK(ctx, static_cast<const IP&>(p).frag_off() == v, "C04:IP:getter:frag_off:set:IP.frag_off", "frag_off() = " << static_cast<const IP&>(p).frag_off() << " | " << program());
            // ip.h: is_fragmented = more-fragments flag set or offset != 0
            VCHECK(ctx, static_cast<const IP&>(p).is_fragmented() == ((v & 0x3fff) != 0), "C04:IP:getter:is_fragmented:set:IP.frag_off", program());
        }
    }
    void clone_step() {
        std::unique_ptr<PDU> c(top->clone());
        top = std::move(c);
        relink();
        ++clones;
        text.push_back("clone-and-continue");
        ctx.label("clone");
        check_all("clone", "");
    }
    // serialisation writes the derived fields and tags back into the object: the model forgets them, everything else must stay
    bool serialize_step() {
        try {
            top->serialize();
        } catch (const std::exception&) {
            return false;  // C02's contract
        }
        for (size_t i = 0; i < layers.size(); ++i) {
            LM& m = model[i];
            LayerView v = view_layer(*layers[i]);
            for (const FieldView& fv : v.fields) if (fv.kind == 'D' || fv.kind == 'T') m.f.erase(fv.name);
            forget_aliases(m, "length");
            m.f.erase("length");
            if (m.cls == "RSNEAPOL") m.f.erase("key_length");
            if (m.cls == "ICMPv6") { m.f.erase("sequence"); m.f.erase("router_lifetime"); }  // MLDv2 record count shares these octets
        }
        ++serialized;
        text.push_back("serialize-and-continue");
        ctx.label("serialize-mid-program");
        check_all("serialize", "");
        return true;
    }

    // ---- values a program must set because the wire needs them to be consistent with what the program built
    template <class F> void fix(size_t i, const std::string& getter, const std::string& value, const std::string& shown, F call) {
        call();
        model[i].f[getter] = value;
        forget_aliases(model[i], getter);
        text.push_back("L" + std::to_string(i) + " " + shown);
        check_layer(i, "set", model[i].cls + "." + getter);
    }
    void initial_tags() {
        for (size_t i = 0; i + 1 < layers.size(); ++i) {
            if (model[i].cls == "LLC" && model[i + 1].cls == "STP") {  // IEEE 802.1D: BPDUs use LSAP 0x42
                LLC* l = static_cast<LLC*>(layers[i]);
                fix(i, "dsap", "66", "LLC::dsap(0x42)", [l] { l->dsap(0x42); });
                fix(i, "ssap", "66", "LLC::ssap(0x42)", [l] { l->ssap(0x42); });
            }
        }
    }
    static bool nd_type(long t) { return t >= 133 && t <= 137; }
    void final_tags() {
        for (size_t i = 0; i < layers.size(); ++i) {
            LM& m = model[i];
            PDU* p = layers[i];
            auto num = [&](const char* k, long d) { return atol(m.get(k, std::to_string(d)).c_str()); };
            bool raw_below = i + 1 < layers.size() && model[i + 1].cls == "RawPDU";
            if (m.cls == "ICMPv6") {
                ICMPv6* c = static_cast<ICMPv6*>(p);
                if (!m.opts.empty() && !nd_type(num("type", 128))) {  // options exist in neighbour discovery messages only (RFC 4861)
                    static const int ND[] = {135, 136, 133, 134, 137};
                    int t = ND[s.pick(5)];
                    fix(i, "type", std::to_string(t), "ICMPv6::type(" + std::to_string(t) + ")", [c, t] { c->type((ICMPv6::Types)t); });
                }
                if (!m.iext.empty() && num("type", 128) != 3)        // RFC 4884: extensions in time exceeded only
                    fix(i, "type", "3", "ICMPv6::type(3)", [c] { c->type(ICMPv6::TIME_EXCEEDED); });
            }
            if (m.cls == "ICMP" && !m.iext.empty()) {
                long t = num("type", 8);
                if (t != 3 && t != 11 && t != 12) {
                    ICMP* c = static_cast<ICMP*>(p);
                    fix(i, "type", "11", "ICMP::type(11)", [c] { c->type(ICMP::TIME_EXCEEDED); });
                }
            }
            if (m.cls == "PPPoE") {
                PPPoE* c = static_cast<PPPoE*>(p);
                if (!m.opts.empty() && num("code", 0) == 0) fix(i, "code", "9", "PPPoE::code(9)", [c] { c->code(9); });  // tags: discovery stage (PADI)
                if (m.opts.empty() && raw_below) {
                    if (num("code", 0) != 0) fix(i, "code", "0", "PPPoE::code(0)", [c] { c->code(0); });              // session stage
                    uint16_t len = (uint16_t)p->inner_pdu()->size();
                    fix(i, "payload_length", std::to_string(len), "PPPoE::payload_length(" + std::to_string(len) + ")", [c, len] { c->payload_length(len); });
                }
            }
            if (m.cls == "IPv6" && raw_below && !m.f.count("next_header")) {
                IPv6* c = static_cast<IPv6*>(p);
                uint8_t t = safe_proto(s.u8());
                fix(i, "next_header", std::to_string(t), "IPv6::next_header(" + std::to_string(t) + ")", [c, t] { c->next_header(t); });
            }
        }
    }

    // after a serialisation: replace an option by one of the same code and the same size (different bytes). The total size
    // does not change, so an implementation that caches its encoded options by size would keep emitting the stale bytes.
    void same_size_replace(Src& st) {
        std::vector<size_t> cand;
        for (size_t i = 0; i < model.size(); ++i) if (has_remove(model[i].oc) && !model[i].opts.empty()) cand.push_back(i);
        if (cand.empty()) return;
        size_t i = cand[st.pick(cand.size())];
        PDU& p = *layers[i];
        LM& m = model[i];
        MOpt old = m.opts[st.pick(m.opts.size())];
        const MOpt* first = m.first(old.code);
        if (!first) return;
        MOpt victim = *first;
        if (victim.lenfield != victim.data.size()) return;  // spoofed ones stay as they are
        bool got = api_remove(p, m.oc, victim.code);
        text.push_back("L" + std::to_string(i) + " " + m.cls + "::remove(" + code_text(m.oc, victim.code) + ")=" + (got ? "true" : "false") + " [same-size replace]");
        VCHECK(ctx, got, "C04:" + m.cls + ":remove-result", "remove returned false for a present option | " << program());
        for (size_t k = 0; k < m.opts.size(); ++k) if (m.opts[k].code == victim.code) { m.opts.erase(m.opts.begin() + k); break; }
        std::vector<uint8_t> d = victim.data;
        for (uint8_t& b : d) b = (uint8_t)(b ^ 0x5a ^ st.u8());
        if (d.empty()) { check_layer(i, "remove", "", victim.code); return; }
        const unsigned how = pick_how(m.oc, st);
        try {
            api_add(p, m.oc, victim.code, false, d.size(), d, how);
        } catch (const exception_base& e) {
            VFAIL(ctx, "C04:" + m.cls + ":add-throws:" + demangled(typeid(e)), program());
        }
        if (how) ctx.label("add-lvalue-overload");
        text.push_back("L" + std::to_string(i) + " " + m.cls + "::add(" + code_text(m.oc, victim.code) + "," + std::to_string(d.size()) + "," + hexs(d) + ") [same-size replace]" + how_text(how));
        MOpt o;
        o.code = victim.code;
        o.data = d;
        o.lenfield = d.size();
        o.wire = d;
        if (m.oc == OC_IPV6) while ((o.wire.size() + 2) % 8) o.wire.push_back(0);
        m.opts.push_back(o);
        count_opt(o);
        ctx.label("same-size-replace-after-serialize");
        check_layer(i, "re-add", "", victim.code);
    }
    void run_steps() {
        unsigned n = (unsigned)s.weighted({1, 2, 3, 3, 2, 1});
        static const unsigned LO[] = {0, 1, 4, 9, 17, 28}, HI[] = {0, 3, 8, 16, 27, 44};
        unsigned steps = n ? (unsigned)s.range(LO[n], HI[n]) : 0;
        if (!ctx.tier && steps > 32) steps = 32;
        std::vector<size_t> optl, listl;
        for (size_t i = 0; i < model.size(); ++i) {
            if (model[i].oc != OC_NONE) optl.push_back(i);
            if (model[i].cls == "RTP" || model[i].cls == "ICMP" || model[i].cls == "ICMPv6") listl.push_back(i);
        }
        for (unsigned k = 0; k < steps; ++k) {
            Src st = s.sub();
            size_t i = st.pick(layers.size());
            // the kind byte: value % 34 walks the weights {5, 8, 5, 7, 3, 1, 3, 2} exactly as Src::weighted does; the 18 values 238..255,
            // which the modulo folds onto kinds 0..2, select an "extra" step when the stack has a layer with such API
            static const unsigned KW[] = {5, 8, 5, 7, 3, 1, 3, 2};
            const uint8_t kb = st.u8();
            unsigned kind = 0;
            for (unsigned v = kb % 34u; v >= KW[kind]; ++kind) v -= KW[kind];
            if (kb >= 238) {
                std::vector<size_t> w;
                for (size_t l = 0; l < model.size(); ++l) w.insert(w.end(), (size_t)extra_weight(model[l].cls), l);
                if (!w.empty()) { extra_step(w[st.pick(w.size())], st); continue; }
            }
            if (!listl.empty() && st.chance(45)) kind = 7;
            if (kind >= 1 && kind <= 4) {
                if (optl.empty()) kind = 0;
                else if (model[i].oc == OC_NONE || st.chance(60)) {
                    // prefer the layer whose class has the larger typed-option vocabulary (IP and TCP are in almost every stack)
                    std::vector<size_t> w;
                    for (size_t l : optl) { unsigned k = (model[l].oc == OC_IP || model[l].oc == OC_TCP || model[l].oc == OC_IPV6) ? 1 : 5; w.insert(w.end(), k, l); }
                    i = w[st.pick(w.size())];
                }
            }
            if (kind == 7) {
                if (!listl.empty()) i = listl[st.pick(listl.size())];
                else kind = 0;
            }
            switch (kind) {
                case 0: scalar_step(i, st); break;
                case 1: typed_step(i, st); break;
                case 2: raw_add(i, st, false); break;
                case 3: remove_step(i, st); break;
                case 4: raw_add(i, st, true); break;
                case 5: clone_step(); break;
                case 6: if (!serialize_step()) return; if (st.chance(60)) same_size_replace(st); break;
                default: list_step(i, st); break;
            }
        }
    }
};

// ------------------------------------------------------------------------------------------------ through the wire
void normalise(PacketView& pv) {  // an empty payload counts as no payload
    while (!pv.empty() && pv.back().cls == "RawPDU") {
        const FieldView* f = pv.back().find("payload");
        if (f && f->value == "x''") pv.pop_back();
        else break;
    }
}
// Minimum-frame padding (EthernetII/Dot3 to 60 octets, Dot1Q with append_padding to 64: documented, alignment padding): `pad`
// zero octets follow the packet, where pad is the sum of trailer_size() of those layers of p. Layers without a length field
// hand them to the parser as (part of) an unrecognised payload: q may show EXACTLY pad extra zero octets at its end.
bool absorb_frame_padding(const PacketView& vp, PacketView& vq, size_t pad) {
    if (!pad || vq.empty() || vq.back().cls != "RawPDU") return false;
    FieldView* qf = nullptr;
    for (FieldView& f : vq.back().fields) if (f.name == "payload") qf = &f;
    if (!qf) return false;
    const std::string zeros(2 * pad, '0');
    if (vq.size() == vp.size() + 1) {
        if (qf->value == "x'" + zeros + "'") { vq.pop_back(); return true; }
        return false;
    }
    if (vq.size() == vp.size() && !vp.empty() && vp.back().cls == "RawPDU") {
        const FieldView* pf = vp.back().find("payload");
        if (pf && qf->value == pf->value.substr(0, pf->value.size() - 1) + zeros + "'") { qf->value = pf->value; return true; }
    }
    return false;
}
std::string fval(const LayerView& l, const char* n) { const FieldView* f = l.find(n); return f ? f->value : std::string(); }

// does the wire carry this getter's field for this message (RFC message formats)? otherwise the getter reads state the parser never sets
bool on_the_wire(const LayerView& l, const std::string& n) {
    const std::string& c = l.cls;
    if (c.compare(0, 5, "Dot11") == 0 && n == "addr4") return fval(l, "to_ds") == "1" && fval(l, "from_ds") == "1";
    if (c == "Dot1Q" && n == "append_padding") return false;  // a serialisation switch, not a header field
    if (c == "DHCP" && n == "vend") return false;             // the option area, compared as options
    if (c == "ICMPv6") {
        long t = atol(fval(l, "type").c_str());
        if (n == "target_addr") return t == 135 || t == 136 || t == 137;
        if (n == "dest_addr") return t == 137;
        if (n == "reachable_time" || n == "retransmit_timer") return t == 134;
        if (n == "multicast_address_records") return t == 143;
        if (n == "multicast_addr" || n == "sources" || n == "supress" || n == "qrv" || n == "qqic") return t == 130;
        if (t == 143 && (n == "sequence" || n == "router_lifetime")) return false;  // the MLDv2 record count (derived) lives there
        if (t == 1 || t == 3)  // RFC 4884 length octet (derived) lives there
            return !(n == "identifier" || n == "hop_limit" || n == "maximum_response_code" || n == "override" || n == "solicited" || n == "router" ||
                     n == "router_pref" || n == "home_agent" || n == "other" || n == "managed");
    }
    if (c == "ICMP") {
        long t = atol(fval(l, "type").c_str());
        if (n == "original_timestamp" || n == "address_mask") return t == 13 || t == 14 || t == 17 || t == 18;
        if (n == "receive_timestamp" || n == "transmit_timestamp") return t == 13 || t == 14;
        if ((t == 3 || t == 11 || t == 12) && (n == "id" || n == "gateway")) return false;  // RFC 4884 length octet
    }
    if (c == "DHCPv6") {
        bool relay = fval(l, "is_relay_message") == "1";
        if (n == "peer_address" || n == "link_address") return relay;
        if (n == "transaction_id") return !relay;
    }
    if (c == "RTP" && (n == "extension_profile" || n == "extension_data")) return fval(l, "extension_bit") == "1";
    if (c == "RSNEAPOL" && n == "key_length") return !(fval(l, "key_t") == "0" && fval(l, "install") == "1");  // derived for group key messages
    return true;
}

std::vector<MOpt> wire_list(const LM& m) {
    std::vector<MOpt> out;
    for (const MOpt& o : m.opts) {
        if ((m.oc == OC_TCP || m.oc == OC_IP) && o.code == 0) break;  // end of option list: what follows is padding (RFC 791 / 793)
        out.push_back(o);
    }
    return out;
}

void reparse_and_compare(Prog& P, Ctx& ctx) {
    for (const LM& m : P.model) for (const MOpt& o : m.opts) if (o.spoofed()) { ctx.excluded("spoofed-length-field-not-reparsed"); return; }
    if (!P.entry) { ctx.excluded("no-entry-point"); return; }
    PDU& top = *P.top;
    // a packet beyond what the 16-bit length fields of its carriers (IPv4 total length, UDP length, IPv6 payload length) can
    // say cannot be parsed back from the wire (e.g. an RTP header filled to its 65535 extension words under UDP/IP)
    if (top.size() > 65535) { ctx.excluded("larger-than-65535-octets-not-reparsed"); return; }
    if (IP* root = dynamic_cast<IP*>(&top)) if (root->src_addr() == IPv4Address((uint32_t)0)) { ctx.excluded("outermost-ip-src-0.0.0.0"); return; }
    std::string prog = P.program();
    PacketView vp = view_packet(top);  // before serialising: serialisation writes derived fields back
    std::vector<uint32_t> hdr;         // header sizes, for the offsets of opaque payloads
    for (const PDU* l : P.layers) hdr.push_back(l->header_size());
    size_t frame_pad = 0;              // minimum-frame padding p itself announces
    for (size_t i = 0; i < P.layers.size(); ++i) {
        const std::string& c = P.model[i].cls;
        if (c == "EthernetII" || c == "Dot3" || c == "Dot1Q") frame_pad += P.layers[i]->trailer_size();
    }
    PDU::serialization_type y;
    try {
        y = top.serialize();
    } catch (const std::exception&) {
        return;  // C02's contract
    }
    std::string chain = layer_chain(top);
    std::unique_ptr<PDU> q;
    try {
        q = parse_entry(*P.entry, y.data(), y.size(), 0);
    } catch (const std::exception& ex) {
        VFAIL(ctx, "C04:reparse-throws:" + demangled(typeid(ex)) + ":" + vp[0].cls, chain << " y=" << hex(y, 512) << " | " << prog);
    }
    if (!q) {
        // blame the innermost layer whose own sub-packet libtins does not parse back
        std::string culprit = vp[0].cls;
        for (size_t i = P.layers.size(); i-- > 0;) {
            const Entry* e = P.entry_named(P.model[i].cls);
            if (!e) continue;
            bool bad = false;
            try {
                std::unique_ptr<PDU> sub(P.layers[i]->clone());
                PDU::serialization_type ys = sub->serialize();
                std::unique_ptr<PDU> qs = parse_entry(*e, ys.data(), ys.size(), 0);
                bad = !qs;
            } catch (const std::exception&) { bad = true; }
            if (bad) { culprit = P.model[i].cls; break; }
        }
        VCHECK(ctx, false, "C04:reparse-rejected:" + culprit, chain << ": libtins rejects the serialisation y=" << hex(y, 512) << " | " << prog);
        return;
    }
    // application layers under UDP are reached the way applications do it: RawPDU::to<T>()
    {
        PDU* par = nullptr;
        size_t i = 0;
        for (PDU* l = q.get(); l && i < P.model.size(); par = l, l = l->inner_pdu(), ++i) {
            const std::string& want = P.model[i].cls;
            RawPDU* r = dynamic_cast<RawPDU*>(l);
            if (!r || !par || par->pdu_type() != PDU::UDP) continue;
            try {
                PDU* conv = nullptr;
                if (want == "DHCP") conv = r->to<DHCP>().clone();
                else if (want == "DHCPv6") conv = r->to<DHCPv6>().clone();
                else if (want == "RTP") conv = r->to<RTP>().clone();
                else if (want == "BootP") conv = r->to<BootP>().clone();
                if (conv) { par->inner_pdu(conv); l = conv; }
            } catch (const malformed_packet&) {
                VCHECK(ctx, false, "C04:reparse-rejected:" + want, chain << ": " << want << " does not parse its own serialisation y=" << hex(y, 512) << " | " << prog);
                return;
            }
        }
    }
    ctx.label("reparse-compared");
    PacketView vq = view_packet(*q);
    // a layer after which the parser (by design) does not decode: fragments, protected 802.11 data frames
    size_t keep = vp.size();
    for (size_t i = 0; i + 1 < vp.size(); ++i) {
        const LayerView& l = vp[i];
        bool opaque = false;
        if (l.cls == "IP" && fval(l, "is_fragmented") == "1") opaque = true;
        if (l.cls == "IPv6" && P.model[i].first(44)) opaque = true;
        if ((l.cls == "Dot11Data" || l.cls == "Dot11QoSData") && fval(l, "wep") == "1") opaque = true;
        if (opaque) { keep = i + 1; break; }
    }
    if (keep < vp.size()) {
        size_t off = 0;
        for (size_t i = 0; i < keep; ++i) off += hdr[i];
        size_t len = P.layers[keep]->size();
        std::vector<uint8_t> tail;
        if (off + len <= y.size()) tail.assign(y.begin() + off, y.begin() + off + len);
        vp.resize(keep);
        LayerView rv;
        rv.cls = "RawPDU";
        rv.fields.push_back(FieldView{'F', "payload", rstr(tail)});
        vp.push_back(rv);
        ctx.label("opaque-payload");
    }
    normalise(vp);
    normalise(vq);
    if (absorb_frame_padding(vp, vq, frame_pad)) ctx.label("frame-padding-absorbed");
    size_t n = std::min(vp.size(), vq.size());
    for (size_t i = 0; i < n; ++i) {
        if (vp[i].cls != vq[i].cls) {
            VCHECK(ctx, false, "C04:reparse:layer-class:" + vp[i].cls + "->" + vq[i].cls + ":under:" + (i ? vp[i - 1].cls : std::string("root")),
                   chain << " re-parsed as " << layer_chain(*q) << " y=" << hex(y, 512) << " | " << prog);
            return;
        }
    }
    if (vp.size() != vq.size()) {
        VCHECK(ctx, false, "C04:reparse:layer-count:after:" + (n ? vp[n - 1].cls : std::string("root")), chain << " re-parsed as " << layer_chain(*q) << " y=" << hex(y, 512) << " | " << prog);
        return;
    }
    for (size_t i = 0; i < vp.size(); ++i) {
        const LayerView& a = vp[i];
        const LayerView& b = vq[i];
        bool modelled = i < keep && i < P.model.size() && P.model[i].cls == a.cls;
        const LM* m = modelled ? &P.model[i] : nullptr;
        // the tag is the program's only when an unrecognised payload follows IN p (below an opaque layer p may hold a recognised one)
        bool raw_follows = i + 1 < vp.size() && vp[i + 1].cls == "RawPDU" && i + 1 < P.model.size() && P.model[i + 1].cls == "RawPDU";
        std::vector<MOpt> wl;
        if (m) { wl = wire_list(*m); for (MOpt& o : wl) { o.data = o.wire; o.lenfield = o.wire.size(); } }
        std::string where = chain + " layer " + std::to_string(i) + " y=" + hex(y, 512) + " | " + prog;
        for (size_t k = 0; k < a.fields.size() && k < b.fields.size(); ++k) {
            const FieldView& fa = a.fields[k];
            const FieldView& fb = b.fields[k];
            if (fa.kind == 'D' || fa.kind == 'S') continue;
            if (fa.kind == 'T') {
                if (!raw_follows) continue;                       // derived when a recognised payload follows; need not survive without payload
                if (a.cls == "IPv6" && m && !m->opts.empty()) continue;  // names the first extension header then
            }
            if (fa.kind == 'O' && m && m->oc != OC_NONE && fa.name == list_name(m->oc)) {
                std::string exp = render_list(m->oc, wl, false);
                VCHECK(ctx, fb.value == exp, "C04:reparse:" + a.cls + ":option-list", fa.name << "() after re-parse = " << fb.value << " expected " << exp << " | " << where);
                continue;
            }
            if (fa.kind == 'X') {
                if (!m) continue;
                bool claim;
                std::string exp = P.expected_typed(*m, wl, fa.name, claim);
                if (claim) VCHECK(ctx, fb.value == exp, "C04:reparse:" + a.cls + ":typed-getter:" + fa.name, fa.name << "() after re-parse = " << fb.value << " expected " << exp << " | " << where);
                continue;
            }
            if (!on_the_wire(a, fa.name)) continue;
            std::string exp = fa.value;
            if (a.cls == "RawPDU" && fa.name == "payload" && i > 0 && i - 1 < P.model.size() && !P.model[i - 1].iext.empty() && i - 1 < keep) {
                // RFC 4884: the original datagram field is zero padded to at least 128 octets and to a 32 bit (ICMPv6: 64 bit) boundary
                size_t len = (exp.size() - 3) / 2, al = P.model[i - 1].cls == "ICMP" ? 4 : 8;
                size_t padded = std::max<size_t>(128, (len + al - 1) / al * al);
                exp = exp.substr(0, exp.size() - 1) + std::string(2 * (padded - len), '0') + "'";
            }
            VCHECK(ctx, fb.value == exp, "C04:reparse:" + a.cls + ":field:" + fa.name, a.cls << "::" << fa.name << " was " << exp << " after re-parse " << fb.value << " | " << where);
        }
    }
}

}  // namespace

void prop(Src& s, Ctx& ctx) {
    Prog P(s, ctx);
    P.build_stack();
    P.initial_tags();
    P.run_steps();
    P.final_tags();
    P.check_all("final", "");
    std::string prog = P.program();
    if (ctx.logging()) ctx.log("program: " + prog);
    reparse_and_compare(P, ctx);

    size_t nopts = 0;
    for (const LM& m : P.model) nopts += m.opts.size() + m.csrc.size() + m.ext.size() + m.iext.size();
    if (P.typed_opts) ctx.label("typed-option");
    if (P.heap_opts) ctx.label("heap-option");
    if (P.mod7_opts) ctx.label("mod7-option");
    if (nopts >= 3) ctx.label("three-or-more-options");
    ctx.nontrivial(P.removes_after_add >= 1 || nopts >= 3 || P.heap_opts || P.mod7_opts);
    ctx.hash(prog);
    ctx.sample(prog.substr(0, 400));
}
