// C19 — ACK/SACK tracker agrees with a set-of-acknowledged-bytes model.
//
// Generator: a sender stream (ISN heavy near 2^32) cut into segments; a simulated conforming receiver (RFC 2018:
// cumulative ACK = first missing byte, <= K SACK blocks, the island holding the newest data first, then the most
// recently reported ones, all strictly above the ACK, no D-SACK) is fed a random arrival order (loss, reordering,
// duplication, coalesced and partial retransmissions) and emits one ACK packet per arrival; a random subset of the
// ACK packets is lost (or duplicated) before it reaches the tracker.
// Systems under test: Tins::TCPIP::AckTracker directly, and Tins::TCPIP::Flow with enable_ack_tracking() after a
// handshake (client role: SYN, ACK; server role: SYN|ACK), fed real Tins::TCP objects (bare, in IP, EthernetII/IP
// or IPv6; optionally serialised and re-parsed so that the SACK option goes through TCP's option codec).
// Oracle: Model below, written from the property statement in unbounded (64-bit) sequence space; it shares no code
// with libtins.
#include "../engine/src.h"
#include <tins/tcp_ip/ack_tracker.h>
#include <tins/tcp_ip/flow.h>
#include <tins/tcp.h>
#include <tins/ip.h>
#include <tins/ipv6.h>
#include <tins/ethernetII.h>
#include <tins/rawpdu.h>
#include <tins/exceptions.h>
#include <algorithm>
#include <memory>
#include <map>
#include <bitset>

using namespace verif;
using namespace Tins;
using Tins::TCPIP::AckTracker;
using Tins::TCPIP::Flow;

const char* const PROP_ID = "C19";
const size_t PROP_MAXLEN_QUICK = 320;
const size_t PROP_MAXLEN_THOROUGH = 640;

typedef uint64_t Abs;  // position in unbounded sequence space; the wire carries (uint32_t)Abs
static const Abs TWO32 = 1ULL << 32;

// ------------------------------------------------------------------------------------------------ interval set
// disjoint, non-adjacent half-open intervals [l, r) over Abs
struct ISet {
    std::map<Abs, Abs> m;
    void add(Abs l, Abs r) {
        if (l >= r) return;
        std::map<Abs, Abs>::iterator it = m.upper_bound(l);
        if (it != m.begin()) {
            std::map<Abs, Abs>::iterator p = it;
            --p;
            if (p->second >= l) it = p;  // overlaps or touches on the left
        }
        while (it != m.end() && it->first <= r) {
            l = std::min(l, it->first);
            r = std::max(r, it->second);
            it = m.erase(it);
        }
        m[l] = r;
    }
    // remove every byte below p
    void erase_below(Abs p) {
        while (!m.empty() && m.begin()->first < p) {
            Abs r = m.begin()->second;
            m.erase(m.begin());
            if (r > p) { m[p] = r; break; }
        }
    }
    // interval containing x, or m.end()
    std::map<Abs, Abs>::const_iterator find(Abs x) const {
        std::map<Abs, Abs>::const_iterator it = m.upper_bound(x);
        if (it == m.begin()) return m.end();
        --it;
        return it->second > x ? it : m.end();
    }
    bool has(Abs x) const { return find(x) != m.end(); }
    // every byte of [l, r) is in the set (intervals are maximal, so one interval must hold the whole range)
    bool covers(Abs l, Abs r) const {
        if (l >= r) return true;
        std::map<Abs, Abs>::const_iterator it = find(l);
        return it != m.end() && it->second >= r;
    }
    size_t count() const { return m.size(); }
};

// ------------------------------------------------------------------------------------------------ the model (oracle)
// "cumulative ACK = highest contiguously acknowledged position; SACKed set = selectively acknowledged byte ranges
//  above that position; a segment is acknowledged iff every byte is below the position or inside the set"
struct Model {
    bool init = false;
    Abs pos = 0;
    ISet sacked;
    void start(Abs p) { init = true; pos = p; sacked.m.clear(); }
    void on_packet(Abs ack, const std::vector<std::pair<Abs, Abs>>& blocks) {
        if (ack > pos) pos = ack;
        for (size_t i = 0; i < blocks.size(); ++i) sacked.add(blocks[i].first, blocks[i].second);
        sacked.erase_below(pos);
    }
    bool byte_acked(Abs b) const { return b < pos || sacked.has(b); }
    bool acked(Abs seq, uint64_t len) const {
        Abs end = seq + len, from = std::max(seq, pos);
        if (from >= end) return true;
        return sacked.covers(from, end);
    }
};

// closed uint32 intervals, sorted, touching ones merged, never merged across the wrap
typedef std::vector<std::pair<uint32_t, uint32_t>> Norm;
static void normalise(Norm& v) {
    std::sort(v.begin(), v.end());
    Norm out;
    for (size_t i = 0; i < v.size(); ++i) {
        if (!out.empty()) {
            std::pair<uint32_t, uint32_t>& back = out.back();
            bool joins = v[i].first <= back.second || (back.second != 0xffffffffu && v[i].first == back.second + 1);
            if (joins) { back.second = std::max(back.second, v[i].second); continue; }
        }
        out.push_back(v[i]);
    }
    v.swap(out);
}
static Norm model_norm(const ISet& s) {
    Norm v;
    for (std::map<Abs, Abs>::const_iterator it = s.m.begin(); it != s.m.end(); ++it) {
        uint32_t f = (uint32_t)it->first, l = (uint32_t)(it->second - 1);
        if (f <= l) v.push_back(std::make_pair(f, l));
        else { v.push_back(std::make_pair(f, 0xffffffffu)); v.push_back(std::make_pair(0u, l)); }
    }
    normalise(v);
    return v;
}
static Norm tracker_norm(const AckTracker::interval_set_type& set) {
    Norm v;
    for (AckTracker::interval_set_type::const_iterator it = set.begin(); it != set.end(); ++it) {
        uint64_t lo = it->lower(), hi = it->upper();
        if (!boost::icl::is_left_closed(it->bounds())) lo += 1;
        if (!boost::icl::is_right_closed(it->bounds())) { if (hi == 0) continue; hi -= 1; }
        if (lo > hi || lo > 0xffffffffULL) continue;  // empty
        v.push_back(std::make_pair((uint32_t)lo, (uint32_t)hi));
    }
    normalise(v);
    return v;
}
static std::string show(const Norm& v) {
    std::ostringstream os;
    os << "{";
    for (size_t i = 0; i < v.size(); ++i) os << (i ? "," : "") << "[" << v[i].first << "," << v[i].second << "]";
    os << "}";
    return os.str();
}

// ------------------------------------------------------------------------------------------------ receiver simulation
struct Receiver {
    Abs base = 0;
    ISet got;
    std::vector<Abs> touch;  // start of every arrival that brought new data, oldest first
    Abs cum() const {
        std::map<Abs, Abs>::const_iterator it = got.m.find(base);
        return it == got.m.end() ? base : it->second;
    }
    bool arrive(Abs l, Abs r) {
        bool fresh = !got.covers(l, r);
        got.add(l, r);
        if (fresh) {
            // remember a byte that is new; the island containing it is "most recently changed"
            touch.push_back(l);
            if (touch.size() > 64) touch.erase(touch.begin());
        }
        return fresh;
    }
    // RFC 2018 section 4: first block = island with the newest data, then the most recently reported others
    std::vector<std::pair<Abs, Abs>> blocks(size_t k) const {
        std::vector<std::pair<Abs, Abs>> out;
        Abs c = cum();
        for (size_t i = touch.size(); i-- > 0 && out.size() < k;) {
            // a touch position may have been new only in its tail; look the island up by its last new byte instead
            std::map<Abs, Abs>::const_iterator it = got.find(touch[i]);
            if (it == got.m.end() || it->first <= c) continue;  // below / part of the cumulative prefix
            std::pair<Abs, Abs> b(it->first, it->second);
            if (std::find(out.begin(), out.end(), b) == out.end()) out.push_back(b);
        }
        return out;
    }
};

// ------------------------------------------------------------------------------------------------ packets
static const char* SRC4 = "10.0.0.1";
static const char* DST4 = "10.0.0.2";
static const char* SRC6 = "2001:db8::1";
static const char* DST6 = "2001:db8::2";
static const uint16_t SPORT = 40000, DPORT = 80;

struct Layout {
    unsigned wrapper;  // 0 bare TCP, 1 IP, 2 EthernetII/IP, 3 IPv6
    bool wire;         // serialise + re-parse before feeding
    unsigned opts;     // 0: NOP NOP SACK; 1: NOP NOP TS NOP NOP SACK; 2: SACK only
};

static PDU* wrap(const TCP& tcp, unsigned wrapper) {
    switch (wrapper) {
        case 0: return tcp.clone();
        case 1: return new IP(IP(DST4, SRC4) / tcp);
        case 2: return new EthernetII(EthernetII("00:01:02:03:04:05", "00:0a:0b:0c:0d:0e") / IP(DST4, SRC4) / tcp);
        default: return new IPv6(IPv6(DST6, SRC6) / tcp);
    }
}
static PDU* reparse(const PDU& p, unsigned wrapper) {
    PDU::serialization_type buf = const_cast<PDU&>(p).serialize();
    switch (wrapper) {
        case 0: return new TCP(buf.data(), (uint32_t)buf.size());
        case 1: return new IP(buf.data(), (uint32_t)buf.size());
        case 2: return new EthernetII(buf.data(), (uint32_t)buf.size());
        default: return new IPv6(buf.data(), (uint32_t)buf.size());
    }
}

struct AckPkt {
    Abs ack;
    std::vector<std::pair<Abs, Abs>> blocks;
};

static TCP make_ack(const AckPkt& a, const Layout& lay, uint32_t seq, uint32_t tsval, bool fin) {
    TCP tcp(DPORT, SPORT);
    tcp.seq(seq);
    tcp.ack_seq((uint32_t)a.ack);
    tcp.flags(fin ? (TCP::ACK | TCP::FIN) : TCP::ACK);
    tcp.window(0x7210);
    if (lay.opts == 1) {
        tcp.add_option(TCP::option(TCP::NOP));
        tcp.add_option(TCP::option(TCP::NOP));
        tcp.timestamp(tsval, tsval ^ 0x55aa);
    }
    if (!a.blocks.empty()) {
        if (lay.opts != 2) {
            tcp.add_option(TCP::option(TCP::NOP));
            tcp.add_option(TCP::option(TCP::NOP));
        }
        TCP::sack_type edges;
        for (size_t i = 0; i < a.blocks.size(); ++i) {
            edges.push_back((uint32_t)a.blocks[i].first);
            edges.push_back((uint32_t)a.blocks[i].second);  // right edge: first byte after the block
        }
        tcp.sack(edges);
    }
    return tcp;
}

// ------------------------------------------------------------------------------------------------ SUT adapter
struct Sut {
    bool use_flow = false;
    std::unique_ptr<AckTracker> direct;
    std::unique_ptr<Flow> flow;
    const AckTracker& tracker() const { return use_flow ? flow->ack_tracker() : *direct; }
    void feed(PDU& p) {
        if (use_flow) flow->process_packet(p);
        else direct->process_packet(p);
    }
};

static void deliver(Sut& sut, const TCP& tcp, const Layout& lay) {
    std::unique_ptr<PDU> p(wrap(tcp, lay.wrapper));
    if (lay.wire) {
        std::unique_ptr<PDU> q(reparse(*p, lay.wrapper));
        sut.feed(*q);
    } else {
        sut.feed(*p);
    }
}

// ------------------------------------------------------------------------------------------------ checks
struct QStats {
    bool in_island = false, straddle_wrap = false, straddle_wrap_true = false, straddle_ack = false, below = false, unacked = false,
         bridge = false;
};

static void query(Ctx& ctx, const std::string& tag, const AckTracker& t, const Model& m, Abs seq, uint64_t len, QStats& qs, const char* why) {
    // keep every queried byte within 2^30 of the cumulative position: "below" is only meaningful inside the half window
    Abs lo = m.pos > (1ULL << 30) ? m.pos - (1ULL << 30) : 0, hi = m.pos + (1ULL << 30);
    if (seq < lo || seq + len > hi || len >= (1ULL << 30)) return;
    bool got = t.is_segment_acked((uint32_t)seq, (uint32_t)len);
    bool exp = m.acked(seq, len);
    if (len == 0) {
        // vacuous: no byte is unacknowledged (the implementation makes the same explicit decision)
        VCHECK(ctx, got, tag + ":is_segment_acked:len0", "is_segment_acked(" << (uint32_t)seq << ", 0) = false; ack=" << (uint32_t)m.pos);
        return;
    }
    if (got != exp) {
        std::ostringstream os;
        os << "is_segment_acked(seq=" << (uint32_t)seq << ", len=" << len << ") = " << got << ", model says " << exp << " [" << why
           << "]; model ack=" << (uint32_t)m.pos << " sacked=" << show(model_norm(m.sacked)) << " tracker ack=" << t.ack_number()
           << " intervals=" << show(tracker_norm(t.acked_intervals()));
        ctx.report(tag + (got ? ":is_segment_acked:false-positive" : ":is_segment_acked:false-negative"), os.str());
    }
    Abs end = seq + len;
    if (exp) {
        if (end <= m.pos) qs.below = true;
        else if (seq >= m.pos) qs.in_island = true;
    } else qs.unacked = true;
    if (seq < m.pos && end > m.pos) qs.straddle_ack = true;
    if ((seq >> 32) != ((end - 1) >> 32)) { qs.straddle_wrap = true; if (exp) qs.straddle_wrap_true = true; }
    if (!exp && m.byte_acked(seq) && m.byte_acked(end - 1)) qs.bridge = true;  // both ends acked, a hole in between
}

static void observe(Ctx& ctx, const std::string& tag, const Sut& sut, const Model& m, const std::vector<std::pair<Abs, Abs>>& segs, Abs base,
                    unsigned rq, QStats& qs, size_t step) {
    const AckTracker& t = sut.tracker();
    VCHECK(ctx, t.ack_number() == (uint32_t)m.pos, tag + ":ack_number",
           "after packet " << step << ": ack_number()=" << t.ack_number() << " model=" << (uint32_t)m.pos);
    Norm tn = tracker_norm(t.acked_intervals()), mn = model_norm(m.sacked);
    VCHECK(ctx, tn == mn, tag + ":acked_intervals",
           "after packet " << step << ": acked_intervals()=" << show(tn) << " model=" << show(mn) << " ack=" << (uint32_t)m.pos);

    // --- queries
    // 1. the sender's question: every segment, and every pair of neighbouring segments
    for (size_t i = 0; i < segs.size(); ++i) {
        query(ctx, tag, t, m, segs[i].first, segs[i].second - segs[i].first, qs, "segment");
        if (i + 1 < segs.size()) query(ctx, tag, t, m, segs[i].first, segs[i + 1].second - segs[i].first, qs, "two segments");
    }
    // 2. every edge +-1 of every model interval
    for (std::map<Abs, Abs>::const_iterator it = m.sacked.m.begin(); it != m.sacked.m.end(); ++it) {
        Abs l = it->first, r = it->second;
        uint64_t n = r - l;
        query(ctx, tag, t, m, l, n, qs, "whole island");
        query(ctx, tag, t, m, l - 1, n, qs, "island shifted left");
        query(ctx, tag, t, m, l + 1, n, qs, "island shifted right");
        query(ctx, tag, t, m, l - 1, n + 1, qs, "island + byte before");
        query(ctx, tag, t, m, l, n + 1, qs, "island + byte after");
        query(ctx, tag, t, m, l - 1, 1, qs, "byte before island");
        query(ctx, tag, t, m, l, 1, qs, "first byte of island");
        query(ctx, tag, t, m, r - 1, 1, qs, "last byte of island");
        query(ctx, tag, t, m, r, 1, qs, "byte after island");
        if (n > 1) {
            query(ctx, tag, t, m, l + 1, n - 1, qs, "island without first byte");
            query(ctx, tag, t, m, l, n - 1, qs, "island without last byte");
        }
        // from below the cumulative ACK into / over the island
        query(ctx, tag, t, m, m.pos - 1, r - (m.pos - 1), qs, "from below ack to island end");
        std::map<Abs, Abs>::const_iterator nx = it;
        ++nx;
        if (nx != m.sacked.m.end()) query(ctx, tag, t, m, l, nx->second - l, qs, "two islands and the hole");
    }
    // 3. around the cumulative ACK
    {
        Abs p = m.pos;
        query(ctx, tag, t, m, p - 1, 1, qs, "last acked byte");
        query(ctx, tag, t, m, p, 1, qs, "first unacked byte");
        query(ctx, tag, t, m, p - 1, 2, qs, "straddles ack");
        query(ctx, tag, t, m, p - 2, 2, qs, "ends at ack");
        query(ctx, tag, t, m, base, p - base, qs, "everything acked so far");
        query(ctx, tag, t, m, base, p - base + 1, qs, "everything acked + 1");
        query(ctx, tag, t, m, base - 1, 1, qs, "the SYN");
        query(ctx, tag, t, m, p, 0, qs, "len 0 at ack");
        query(ctx, tag, t, m, p + 5, 0, qs, "len 0 above ack");
        query(ctx, tag, t, m, p - 1, 0, qs, "len 0 below ack");
    }
    // 4. around the wrap point nearest to the cumulative ACK
    {
        Abs w = ((m.pos + (TWO32 >> 1)) >> 32) << 32;
        unsigned a = 1 + (rq & 7), b = 1 + ((rq >> 3) & 7);
        query(ctx, tag, t, m, w - 1, 1, qs, "byte 0xffffffff");
        query(ctx, tag, t, m, w, 1, qs, "byte 0");
        query(ctx, tag, t, m, w - 1, 2, qs, "straddles wrap");
        query(ctx, tag, t, m, w - a, a, qs, "ends at 0xffffffff");
        query(ctx, tag, t, m, w - a, a + b, qs, "straddles wrap (a+b)");
        query(ctx, tag, t, m, w, 0, qs, "len 0 at wrap");
    }
    // 5. one generated query: anchor +- delta, length class
    {
        std::vector<Abs> anchors;
        anchors.push_back(m.pos);
        for (std::map<Abs, Abs>::const_iterator it = m.sacked.m.begin(); it != m.sacked.m.end(); ++it) { anchors.push_back(it->first); anchors.push_back(it->second); }
        for (size_t i = 0; i < segs.size(); ++i) anchors.push_back(segs[i].first);
        Abs an = anchors[(rq >> 8) % anchors.size()];
        int delta = (int)((rq >> 16) & 15) - 8;
        uint64_t len = ((rq >> 20) & 3) == 0 ? ((rq >> 22) & 7) : (((rq >> 20) & 3) == 1 ? ((rq >> 22) & 255) : (segs.back().second - base) * ((rq >> 22) & 3) / 2);
        query(ctx, tag, t, m, (Abs)((int64_t)an + delta), len, qs, "generated");
    }
}

// ------------------------------------------------------------------------------------------------ self test of the model
void prop_setup(Ctx& ctx) {
    // ISet / Model against a brute-force bitset over a tiny universe
    uint64_t x = 88172645463325252ULL;
    for (int round = 0; round < 300; ++round) {
        Model m;
        m.start(4);
        std::bitset<96> sack;
        Abs pos = 4;
        for (int op = 0; op < 12; ++op) {
            x ^= x << 13; x ^= x >> 7; x ^= x << 17;
            Abs ack = std::max<Abs>(pos, 4 + (x & 63) % 40);
            if ((x >> 8) & 1) ack = pos;
            std::vector<std::pair<Abs, Abs>> bl;
            unsigned nb = (x >> 10) & 3;
            for (unsigned i = 0; i < nb; ++i) {
                x ^= x << 13; x ^= x >> 7; x ^= x << 17;
                Abs l = ack + 1 + (x & 31), r = l + 1 + ((x >> 6) & 7);
                if (r > 90) continue;
                bl.push_back(std::make_pair(l, r));
            }
            m.on_packet(ack, bl);
            pos = std::max(pos, ack);
            for (size_t i = 0; i < bl.size(); ++i) for (Abs b = bl[i].first; b < bl[i].second; ++b) sack.set(b);
            for (Abs b = 0; b < pos; ++b) sack.reset(b);
            for (Abs b = 0; b < 96; ++b)
                if (m.sacked.has(b) != sack.test(b) || m.pos != pos) VFAIL(ctx, "C19:internal:model-self-test", "set mismatch at byte " << b);
            for (Abs s0 = 0; s0 < 94; s0 += 1 + (x & 3)) for (uint64_t len = 0; s0 + len <= 95 && len < 20; ++len) {
                bool all = true;
                for (Abs b = s0; b < s0 + len; ++b) all = all && (b < pos || sack.test(b));
                if (m.acked(s0, len) != all) VFAIL(ctx, "C19:internal:model-self-test", "acked(" << s0 << "," << len << ") mismatch");
            }
        }
        // maximality of the model's intervals
        Abs prev_r = 0; bool first = true;
        for (std::map<Abs, Abs>::const_iterator it = m.sacked.m.begin(); it != m.sacked.m.end(); ++it) {
            if (it->first >= it->second || (!first && it->first <= prev_r)) VFAIL(ctx, "C19:internal:model-self-test", "intervals not disjoint/maximal");
            prev_r = it->second; first = false;
        }
    }
}

// ------------------------------------------------------------------------------------------------ the property
void prop(Src& s, Ctx& ctx) {
    const unsigned MAXSEG = ctx.tier ? 48 : 24, MAXEV = ctx.tier ? 120 : 60;

    // ---- header
    unsigned mode = (unsigned)s.weighted({4, 2, 2});  // 0 AckTracker, 1 Flow (client role), 2 Flow (server role)
    Layout lay;
    lay.wrapper = (unsigned)s.range(0, 3);
    lay.wire = s.chance(30);
    unsigned optsel = (unsigned)s.weighted({4, 3, 2, 1});
    size_t K = 4;
    lay.opts = 0;
    if (optsel == 1) { lay.opts = 1; K = 3; }          // timestamps leave room for three blocks
    else if (optsel == 2) { lay.opts = 2; K = 4; }
    else if (optsel == 3) { lay.opts = 0; K = 1 + (size_t)s.range(0, 1); }
    if (mode != 0 && lay.wrapper == 0) lay.wrapper = 1;  // a Flow sees network-layer packets
    unsigned misc = s.u8();
    bool hs_ack_lost = (misc & 1) != 0;       // Flow/client: the third handshake packet is not seen
    bool syn_garbage_ack = (misc & 6) == 6;   // Flow/client: SYN carries a non-zero ack field
    bool with_fin = (misc & 0x18) == 0x18;    // last ACK packet carries FIN
    bool with_payload = (misc & 0x60) == 0x60;
    bool late_sack_enable = (misc & 0x80) != 0;  // AckTracker(initial, false) + use_sack()
    unsigned nev = (unsigned)s.range(0, MAXEV);
    unsigned profile = s.u8();
    unsigned loss_profile = profile & 3;          // 0 independent loss; 1 heavy, long bursts of lost ACK packets; 2 none; 3 short bursts
    unsigned arrival_profile = (profile >> 2) & 3;  // 0,2 mixed; 1 scattered (many islands); 3 descending (islands grow downwards)

    // ---- the sender's stream
    unsigned nseg = 1 + (unsigned)s.range(0, MAXSEG - 1);
    // one history in 64: thousands of one-byte segments arriving every other one first, so that far more than a thousand
    // SACKed islands exist at the same time before the holes are filled in order
    const bool many_islands = (profile & 0xfc) == 0xfc && (misc & 0x0f) == 0x0f && mode == 0 && (ctx.tier || (misc & 0x30) == 0x30);   // 1 in 1024 (quick tier: 1 in 4096), AckTracker driven directly
    if (many_islands) { nseg = 2100 + 2 * (unsigned)(misc & 0x7f); nev = nseg; }
    const bool long_lived = !many_islands && (profile & 0xf0) == 0xe0;   // one history in 16: every 'large' segment is a giant one
    std::vector<uint32_t> sizes(nseg);
    uint64_t total = 0;
    bool giant = false;
    for (unsigned i = 0; i < nseg; ++i) {
        unsigned b = many_islands ? 0 : s.u8();
        uint32_t sz;
        if (long_lived && (b & 7) >= 5) b = (b & 0xf8) | 6;   // every larger segment becomes a giant one
        switch (b & 7) {
            case 0: case 1: case 2: sz = 1; break;
            case 3: case 4: sz = 2 + ((b >> 3) % 15); break;
            case 5: { static const uint32_t MSS[3] = {1460, 536, 1448}; sz = MSS[(b >> 3) % 3]; break; }
            case 6:
                // a long-lived connection: a quarter of these are stretches of 256 MiB .. 512 MiB acknowledged as one segment,
                // so that a history can advance by several times 2^31 / 2^32
                if ((b >> 3) >= 24 || long_lived) { sz = (1u << 28) + ((uint32_t)s.u16() << 12); giant = true; }
                else sz = 1 + s.u16();
                break;
            default: sz = 1 + (b >> 3); break;
        }
        sizes[i] = sz;
        total += sz;
    }
    uint32_t isn;
    unsigned isn_class = (unsigned)s.weighted({3, 2, 1, 1});
    switch (isn_class) {
        case 0: isn = (uint32_t)(0 - (uint32_t)s.range(0, total + 8)); break;                 // the stream crosses / touches 2^32
        case 1: isn = s.u32(); break;
        case 2: { static const uint32_t E[8] = {0xffffffffu, 0xfffffffeu, 0, 1, 0x7fffffffu, 0x80000000u, 0x7ffffffeu, 0xfffffffdu}; isn = E[s.u8() & 7]; break; }
        default: isn = (uint32_t)(0x80000000u - (uint32_t)s.range(0, total + 8)); break;      // crosses 2^31
    }
    const Abs isn_abs = TWO32 + isn, base = isn_abs + 1;
    std::vector<std::pair<Abs, Abs>> segs(nseg);
    {
        Abs p = base;
        for (unsigned i = 0; i < nseg; ++i) { segs[i] = std::make_pair(p, p + sizes[i]); p += sizes[i]; }
    }
    const Abs stream_end = segs.back().second;

    const std::string tag = mode == 0 ? "C19:AckTracker" : "C19:Flow";
    ctx.hash(mode); ctx.hash(lay.wrapper * 16 + lay.wire * 8 + lay.opts); ctx.hash(K); ctx.hash(isn);
    // only the flags that are effective in this mode (profiles only steer the history, which is hashed below)
    ctx.hash((mode == 0 && late_sack_enable) * 1 + (mode == 1 && hs_ack_lost) * 2 + (mode == 1 && syn_garbage_ack) * 4 + with_fin * 8 + with_payload * 16);
    for (unsigned i = 0; i < nseg; ++i) ctx.hash(sizes[i]);

    if (ctx.logging()) {
        std::ostringstream os;
        os << "mode=" << (mode == 0 ? "AckTracker" : mode == 1 ? "Flow/client" : "Flow/server") << " wrapper=" << lay.wrapper << " wire=" << lay.wire
           << " opts=" << lay.opts << " K=" << K << " isn=" << isn << " base=" << (uint32_t)base << " nseg=" << nseg << " total=" << total
           << " events=" << nev << " loss_profile=" << loss_profile << " arrival_profile=" << arrival_profile << " hs_ack_lost=" << hs_ack_lost << " fin=" << with_fin << " payload=" << with_payload << "\nsegments:";
        for (unsigned i = 0; i < nseg; ++i) os << " [" << (uint32_t)segs[i].first << "+" << sizes[i] << "]";
        ctx.log(os.str());
    }

    // ---- systems under test + model
    Sut sut;
    Model model;
    uint32_t my_seq = 0x1000;  // sequence number of the ACKing side (irrelevant to the tracker)
    size_t step = 0;
    QStats qs;
    if (mode == 0) {
        if (late_sack_enable) { sut.direct.reset(new AckTracker((uint32_t)base, false)); sut.direct->use_sack(); }
        else sut.direct.reset(new AckTracker((uint32_t)base));
        model.start(base);
    } else {
        sut.use_flow = true;
        if (lay.wrapper == 3) sut.flow.reset(new Flow(IPv6Address(DST6), DPORT, my_seq));
        else sut.flow.reset(new Flow(IPv4Address(DST4), DPORT, my_seq));
        sut.flow->enable_ack_tracking();
        TCP syn(DPORT, SPORT);
        syn.seq(my_seq);
        syn.window(0xffff);
        syn.mss(1460);
        syn.sack_permitted();
        if (mode == 1) {
            syn.flags(TCP::SYN);
            syn.ack_seq(syn_garbage_ack ? 0xdeadbeefu : 0);
        } else {
            syn.flags(TCP::SYN | TCP::ACK);
            syn.ack_seq((uint32_t)base);
        }
        deliver(sut, syn, lay);
        my_seq += 1;
        if (!sut.flow->ack_tracking_enabled()) VFAIL(ctx, "C19:internal:flow-setup", "enable_ack_tracking() had no effect");
        if (mode == 2) {
            // the SYN|ACK acknowledges the peer's SYN: the tracker starts at ISN+1
            model.start(base);
        } else if (!hs_ack_lost) {
            AckPkt a;
            a.ack = base;
            deliver(sut, make_ack(a, lay, my_seq, 1, false), lay);
            model.start(base);
        }
    }
    if (model.init) observe(ctx, tag, sut, model, segs, base, 0, qs, step);

    // ---- receiver history
    Receiver rx;
    rx.base = base;
    std::vector<char> have(nseg, 0);
    size_t max_islands = 0, delivered = 0, lost = 0, dups = 0;
    bool ack_at_island_end = false, ack_over_island = false, ack_over_unknown = false, sack_merge = false, island_wraps = false, ack_wraps = false,
         more_islands_than_blocks = false, one_byte_island = false, fourth_block_news = false, later_block_news = false, first_ack_has_sack = false, partial_used = false;

    bool prev_lost = false;
    for (unsigned ev = 0; ev < nev; ++ev) {
        unsigned b0 = s.u8(), b1 = s.u8(), b2 = s.u8(), b3 = s.u8();
        static const uint8_t CH[4][16] = {{0, 0, 0, 0, 0, 1, 1, 1, 1, 2, 2, 3, 3, 4, 5, 5},
                                          {0, 0, 1, 1, 1, 1, 1, 1, 1, 1, 2, 3, 3, 4, 5, 6},
                                          {0, 0, 0, 0, 0, 1, 1, 1, 1, 2, 2, 3, 3, 4, 5, 5},
                                          {0, 6, 6, 6, 6, 6, 6, 6, 1, 1, 2, 3, 3, 4, 5, 5}};
        static const uint8_t FATE[4][16] = {{0, 0, 0, 0, 0, 0, 0, 0, 0, 1, 1, 1, 1, 1, 2, 2},
                                            {0, 0, 0, 0, 1, 1, 1, 1, 1, 1, 1, 1, 1, 1, 1, 2},
                                            {0, 0, 0, 0, 0, 0, 0, 0, 0, 0, 0, 0, 0, 0, 2, 2},
                                            {0, 0, 0, 0, 0, 0, 0, 0, 0, 1, 1, 1, 1, 1, 2, 2}};
        unsigned choice = CH[arrival_profile][b0 & 15], fate = FATE[loss_profile][b0 >> 4];
        if (loss_profile == 1 && prev_lost && (b0 >> 4) >= 3 && (b0 >> 4) != 15) fate = 1;  // loss comes in long bursts
        if (loss_profile == 3 && prev_lost && (b0 >> 4) >= 6 && (b0 >> 4) != 15) fate = 1;  // ... shorter bursts
        prev_lost = fate == 1;
        // what arrives at the receiver
        unsigned lowest = nseg, highest = nseg;  // nseg = none
        for (unsigned i = 0; i < nseg; ++i) if (!have[i]) { lowest = i; break; }
        for (unsigned i = nseg; i-- > 0;) if (have[i]) { highest = i; break; }
        unsigned idx, cnt = 1;
        Abs al, ar;
        switch (choice) {
            default:
            case 0: idx = lowest < nseg ? lowest : b1 % nseg; break;
            case 1: {  // ahead of the highest received segment (scattered profile: always leave a gap)
                unsigned gap = arrival_profile == 1 ? 1 + (b1 % 2) : (b1 % 3);
                idx = highest == nseg ? gap : highest + 1 + gap;
                if (idx >= nseg) idx = nseg - 1;
                break;
            }
            case 6: {  // the highest segment not yet received (stream arrives back to front)
                idx = nseg;
                for (unsigned i = nseg; i-- > 0;) if (!have[i]) { idx = i; break; }
                if (idx == nseg) idx = b1 % nseg;
                break;
            }
            case 2: idx = b1 % nseg; break;
            case 3: {  // a missing segment below the highest received one (fills / shrinks a hole)
                std::vector<unsigned> holes;
                if (highest != nseg) for (unsigned i = 0; i < highest; ++i) if (!have[i]) holes.push_back(i);
                idx = holes.empty() ? (lowest < nseg ? lowest : b1 % nseg) : holes[b1 % holes.size()];
                break;
            }
            case 4: idx = (b1 & 1) ? b1 % nseg : (lowest < nseg ? lowest : 0); cnt = 2 + ((b1 >> 1) & 1); break;  // coalesced retransmission
            case 5: idx = b1 % nseg; break;                                                                      // part of a segment
        }
        if (long_lived && (b0 & 15) < 11 && choice != 0) { choice = 0; idx = lowest < nseg ? lowest : b1 % nseg; cnt = 1; }   // long stretches without loss between the loss episodes
        if (many_islands) { idx = ev < nseg / 2 ? 2 * ev + 1 : 2 * (ev - nseg / 2); if (idx >= nseg) idx = nseg - 1; cnt = 1; fate = 0; choice = 0; }
        if (idx + cnt > nseg) cnt = nseg - idx;
        // a conforming receiver's window: nothing is accepted 1.5 * 2^30 or more beyond the cumulative position (well inside the half space)
        if (segs[idx + cnt - 1].second - rx.cum() >= (3ULL << 29)) { idx = lowest < nseg ? lowest : idx; cnt = 1; choice = 0; }
        al = segs[idx].first;
        ar = segs[idx + cnt - 1].second;
        if (choice == 5 && ar - al > 1) {
            uint64_t n = ar - al, a = (b1 >> 4) % n, l = 1 + (b1 >> 2) % (n - a);
            al += a;
            ar = al + l;
            partial_used = true;
        }
        rx.arrive(al, ar);
        if (!many_islands) for (unsigned i = 0; i < nseg; ++i) have[i] = rx.got.covers(segs[i].first, segs[i].second);   // (the fixed schedule does not look at it)

        // the receiver's ACK
        AckPkt a;
        a.ack = rx.cum();
        a.blocks = rx.blocks(K);
        for (size_t i = 0; i < a.blocks.size(); ++i) {
            if (!(a.blocks[i].first > a.ack && a.blocks[i].second > a.blocks[i].first && a.blocks[i].second <= stream_end))
                VFAIL(ctx, "C19:internal:receiver-not-conforming", "block [" << a.blocks[i].first << "," << a.blocks[i].second << ") ack " << a.ack);
        }
        size_t rx_islands = rx.got.count() - (rx.got.m.count(base) ? 1 : 0);
        if (rx_islands > a.blocks.size()) more_islands_than_blocks = true;

        if (ctx.logging()) {
            std::ostringstream os;
            os << "event " << ev << ": data [" << (uint32_t)al << "," << (uint32_t)ar << ") arrives -> ACK " << (uint32_t)a.ack << " SACK";
            for (size_t i = 0; i < a.blocks.size(); ++i) os << " " << (uint32_t)a.blocks[i].first << "-" << (uint32_t)a.blocks[i].second;
            os << (fate == 1 ? "  (ACK packet lost)" : fate == 2 ? "  (ACK packet delivered twice)" : "");
            ctx.log(os.str());
        }
        // serial-number arithmetic only orders values less than 2^31 apart: an ACK packet is not "lost" when the next one
        // that gets through would already have to move the cumulative ACK by 2^28 or more (long-lived histories; together with the
        // largest single arrival the step then stays below 2^31)
        if (fate == 1 && model.init && rx.cum() - model.pos >= (1ULL << 28)) fate = 0;   // (one arrival adds at most 1.5 * 2^30: the jump stays below 2^31)
        if (fate == 1) { ++lost; continue; }

        // ---- deliver to the tracker, update the model, compare
        bool fin = with_fin && ev + 1 == nev && model.init;
        TCP tcp = make_ack(a, lay, my_seq, 100 + ev, fin);
        unsigned paylen = 0;
        if (with_payload && (b3 & 1)) { paylen = 1 + ((b3 >> 1) & 7); }
        for (unsigned rep = 0; rep < (fate == 2 ? 2u : 1u); ++rep) {
            if (paylen) {
                TCP withdata = tcp;
                withdata /= RawPDU(std::string(paylen, 'x'));
                deliver(sut, withdata, lay);
            } else deliver(sut, tcp, lay);
            ++step;
            // labels (computed on the model before it changes)
            if (!model.init) {
                // Flow/client whose handshake ACK was not seen: the tracker is created from the first ACK it sees
                model.start(a.ack);
                if (!a.blocks.empty()) first_ack_has_sack = true;
            }
            if (a.ack > model.pos) {
                bool at_end = false, over = false;
                for (std::map<Abs, Abs>::const_iterator it = model.sacked.m.begin(); it != model.sacked.m.end(); ++it) {
                    if (it->second == a.ack) at_end = true;
                    else if (it->second < a.ack) over = true;
                }
                if (at_end) ack_at_island_end = true;
                if (over) ack_over_island = true;
                if (!at_end && !model.sacked.m.empty() && a.ack > model.sacked.m.rbegin()->second) ack_over_unknown = true;
                if ((a.ack >> 32) != (model.pos >> 32)) ack_wraps = true;
            }
            for (size_t i = 0; i < a.blocks.size(); ++i) {
                // does the block join two or more known islands?
                size_t touched = 0;
                for (std::map<Abs, Abs>::const_iterator it = model.sacked.m.begin(); it != model.sacked.m.end(); ++it)
                    if (it->first <= a.blocks[i].second && it->second >= a.blocks[i].first) ++touched;
                if (touched >= 2) sack_merge = true;
                if ((a.blocks[i].first >> 32) != ((a.blocks[i].second - 1) >> 32)) island_wraps = true;
                if (a.blocks[i].second - a.blocks[i].first == 1) one_byte_island = true;
                if (i >= 1 && !model.sacked.covers(a.blocks[i].first, a.blocks[i].second)) later_block_news = true;
                if (i == 3 && !model.sacked.covers(a.blocks[i].first, a.blocks[i].second)) fourth_block_news = true;
            }
            model.on_packet(a.ack, a.blocks);
            max_islands = std::max(max_islands, model.sacked.count());
            // (with thousands of islands the full comparison is made on a sample of the steps: every 32nd, around the peak, at the end)
            if (!many_islands || ev % 32 == 0 || (ev + 6 >= nseg / 2 && ev <= nseg / 2 + 6) || ev + 6 >= nev)
                observe(ctx, tag, sut, model, segs, base, b2 | (b3 << 8) | (b1 << 16) | (b0 << 24), qs, step);
        }
        if (paylen) my_seq += paylen;
        if (fin) my_seq += 1;
        ++delivered;
        if (fate == 2) ++dups;
        ctx.hash(a.ack);
        for (size_t i = 0; i < a.blocks.size(); ++i) { ctx.hash(a.blocks[i].first); ctx.hash(a.blocks[i].second); }
        ctx.hash(fate * 16 + paylen);
    }

    // ---- statistics
    bool wrap = stream_end > 2 * TWO32 && base <= 2 * TWO32;  // byte 0xffffffff and byte 0 both belong to the stream
    ctx.label(mode == 0 ? "direct" : mode == 1 ? "flow-client" : "flow-server");
    if (lay.wire) ctx.label("wire");
    if (wrap) ctx.label("wrap");
    if (ack_wraps) ctx.label("ack-crosses-wrap");
    if (island_wraps) ctx.label("sack-block-straddles-wrap");
    if (max_islands >= 2) ctx.label("islands>=2");
    if (max_islands > 4) ctx.label("islands>4");
    if (more_islands_than_blocks) ctx.label("more-islands-than-blocks");
    if (ack_at_island_end) ctx.label("ack-lands-at-island-end");
    if (ack_over_island) ctx.label("ack-passes-island");
    if (ack_over_unknown) ctx.label("ack-beyond-known-islands");
    if (sack_merge) ctx.label("sack-merges-islands");
    if (one_byte_island) ctx.label("one-byte-sack-block");
    if (later_block_news) ctx.label("later-block-carries-news");
    if (fourth_block_news) ctx.label("fourth-block-carries-news");
    if (first_ack_has_sack) ctx.label("flow-first-ack-has-sack");
    if (partial_used) ctx.label("partial-segment");
    if (lost) ctx.label("lost-acks");
    if (dups) ctx.label("duplicated-ack-packet");
    if (with_fin && delivered) ctx.label("fin");
    if (with_payload) ctx.label("payload");
    if (many_islands) ctx.label("more-than-1000-islands");
    if (giant) ctx.label("giant-segments");
    if (stream_end - base > (1ULL << 31)) ctx.label("history-advances-more-than-2^31");
    if (qs.in_island) ctx.label("q-true-in-island");
    if (qs.below) ctx.label("q-true-below-ack");
    if (qs.unacked) ctx.label("q-false");
    if (qs.bridge) ctx.label("q-false-hole-between-acked-ends");
    if (qs.straddle_ack) ctx.label("q-straddles-ack");
    if (qs.straddle_wrap) ctx.label("q-straddles-wrap");
    if (qs.straddle_wrap_true) ctx.label("q-straddles-wrap-true");
    if (delivered == 0) ctx.label("no-ack-delivered");
    // non-trivial (DESIGN NT): >= 2 islands at some point and an ACK that lands at an island edge, or a block that merges two islands
    ctx.nontrivial(max_islands >= 2 && (ack_at_island_end || sack_merge));
    {
        std::ostringstream os;
        os << (mode == 0 ? "AckTracker" : mode == 1 ? "Flow/client" : "Flow/server") << " isn=" << isn << " segs=" << nseg << " bytes=" << total
           << " acks delivered=" << delivered << " lost=" << lost << " max islands=" << max_islands << (wrap ? " wrap" : "");
        ctx.sample(os.str());
    }
}
