// C08 — IPv4 fragment reassembly reconstructs the original datagram.
//
// Every case is a schedule of real wire packets: 1..4 datagrams cut by an own reference fragmenter (IPv4 header
// written by hand, own checksum), 0..3 unfragmented packets, optional remove_stream()/clear_streams() calls. Every
// packet is parsed by libtins (EthernetII / EthernetII+Dot1Q / bare IP) and handed to ONE IPv4Reassembler.
// Oracle: a reference reassembler keyed by (id, source, destination) that works on a byte-coverage walk (not on byte
// counts): expected status of every call, and on REASSEMBLED the expected header (the offset-0 fragment's) and payload.
#include "../engine/src.h"
#include <tins/ip.h>
#include <tins/ip_reassembler.h>
#include <tins/ethernetII.h>
#include <tins/dot1q.h>
#include <tins/udp.h>
#include <tins/tcp.h>
#include <tins/icmp.h>
#include <tins/rawpdu.h>
#include <tins/exceptions.h>
#include <algorithm>
#include <memory>
#include <cstdio>

using namespace verif;
using namespace Tins;

const char* const PROP_ID = "C08";
const size_t PROP_MAXLEN_QUICK = 512;
const size_t PROP_MAXLEN_THOROUGH = 2048;

typedef std::vector<uint8_t> Bytes;

// Finding #18 (DESIGN.md section 5): the stream key uses the UNORDERED address pair. Everything observed on a datagram
// that has a "reversed twin" in the same case (same id, source and destination swapped) is reported under this one
// signature; all other datagrams of the same case keep their specific signatures.
static const char* const SIG_TWIN = "C08:key-collision:reversed-direction-same-id";

enum Kind { K_RAW = 0, K_UDP = 1, K_TCP = 2, K_ICMP = 3 };
enum Wrap { W_ETH = 0, W_BARE = 1, W_VLAN = 2 };
static const char* kind_name(int k) { static const char* N[] = {"raw", "udp", "tcp", "icmp"}; return N[k]; }
static const char* wrap_name(int w) { static const char* N[] = {"eth", "bare-ip", "eth-vlan"}; return N[w]; }
static const char* status_name(int s) { static const char* N[] = {"NOT_FRAGMENTED", "FRAGMENTED", "REASSEMBLED"}; return (s >= 0 && s < 3) ? N[s] : "?"; }

struct RefOpt {
    uint8_t type;
    Bytes data;
    bool operator==(const RefOpt& o) const { return type == o.type && data == o.data; }
};

struct Frag {
    int dg = 0, idx = 0;
    uint32_t off = 0, len = 0;
    bool mf = false, df = false;
    uint8_t ttl = 64, tos = 0;
    std::vector<RefOpt> opts;  // what a parser must report: every option incl. padding NOPs, without a final END
    Bytes optbytes;            // the option area as written (multiple of 4)
    unsigned hdr_len = 20;
    unsigned pad = 0;
    size_t l2 = 0;
    Bytes wire;
};

struct Dgram {
    int kind = K_RAW;
    int wrap = W_ETH;
    uint8_t proto = 253;
    uint16_t id = 0;
    uint8_t src[4] = {0, 0, 0, 0}, dst[4] = {0, 0, 0, 0};
    Bytes payload;
    std::vector<Frag> frags;
    bool twin = false;       // involved in the reversed-direction-same-id class (finding #18)
    int follows = -1;        // re-uses the key of this datagram, strictly after it
    std::string desc;
};

struct Key {
    uint16_t id;
    uint32_t src, dst;
    bool operator<(const Key& o) const {
        if (id != o.id) return id < o.id;
        if (src != o.src) return src < o.src;
        return dst < o.dst;
    }
    bool operator==(const Key& o) const { return id == o.id && src == o.src && dst == o.dst; }
};
static uint32_t be32(const uint8_t* p) { return ((uint32_t)p[0] << 24) | ((uint32_t)p[1] << 16) | ((uint32_t)p[2] << 8) | p[3]; }
static Key key_of(const Dgram& d) { return Key{d.id, be32(d.src), be32(d.dst)}; }
static std::string ip_text(const uint8_t* a) {
    char b[32];
    snprintf(b, sizeof b, "%u.%u.%u.%u", a[0], a[1], a[2], a[3]);
    return b;
}
static IPv4Address tins_addr(const uint8_t* a) {
    uint32_t v;  // IPv4Address(uint32_t) takes the value as it lies in memory (network order)
    memcpy(&v, a, 4);
    return IPv4Address(v);
}
static bool addr_eq(IPv4Address a, const uint8_t* b) {
    uint32_t v = a;
    return memcmp(&v, b, 4) == 0;
}

// ------------------------------------------------------------------------------------------ deterministic payload
static inline uint8_t pat(uint32_t seed, uint32_t i) {
    uint32_t x = seed * 0x9E3779B1u + i * 0x85EBCA77u + 0x1234567u;
    x ^= x >> 15; x *= 0x2C1B3C6Du; x ^= x >> 12; x *= 0x297A2D39u; x ^= x >> 15;
    return (uint8_t)x;
}
static Bytes pattern(uint32_t seed, size_t n) {
    Bytes b(n);
    for (size_t i = 0; i < n; ++i) b[i] = pat(seed, (uint32_t)i);
    return b;
}

// ------------------------------------------------------------------------------------------ reference IPv4 header
static uint16_t ref_checksum(const uint8_t* p, size_t n) {
    uint32_t sum = 0;
    for (size_t i = 0; i + 1 < n; i += 2) sum += ((uint32_t)p[i] << 8) | p[i + 1];
    if (n & 1) sum += (uint32_t)p[n - 1] << 8;
    while (sum >> 16) sum = (sum & 0xffff) + (sum >> 16);
    return (uint16_t)~sum;
}

// option list -> header bytes; padded to a multiple of 4 with NOPs which are appended to `opts` as options of their
// own (so the reference list is exactly what a parser must see); `end_pad`: the very last padding byte is END instead.
static Bytes render_opts(std::vector<RefOpt>& opts, bool end_pad) {
    Bytes b;
    for (const RefOpt& o : opts) {
        b.push_back(o.type);
        if (o.type != 1) { b.push_back((uint8_t)(o.data.size() + 2)); b.insert(b.end(), o.data.begin(), o.data.end()); }
    }
    while (b.size() % 4) {
        if (end_pad && b.size() % 4 == 3) { b.push_back(0); break; }
        b.push_back(1);
        opts.push_back(RefOpt{1, Bytes()});
    }
    return b;
}

static void build_wire(const Dgram& d, Frag& f) {
    const Bytes& ob = f.optbytes;
    f.hdr_len = 20 + (unsigned)ob.size();
    Bytes& w = f.wire;
    w.clear();
    if (d.wrap != W_BARE) {
        static const uint8_t MACS[12] = {0x02, 0x00, 0x5e, 0x10, 0x20, 0x30, 0x02, 0x00, 0x5e, 0x0a, 0x0b, 0x0c};
        w.insert(w.end(), MACS, MACS + 12);
        if (d.wrap == W_VLAN) { w.push_back(0x81); w.push_back(0x00); w.push_back(0x20); w.push_back(0x2a); }
        w.push_back(0x08); w.push_back(0x00);
    }
    f.l2 = w.size();
    size_t h = w.size();
    uint16_t tot = (uint16_t)(f.hdr_len + f.len);
    uint16_t fw = (uint16_t)((f.df ? 0x4000 : 0) | (f.mf ? 0x2000 : 0) | (f.off / 8));
    w.push_back((uint8_t)(0x40 | (f.hdr_len / 4)));
    w.push_back(f.tos);
    w.push_back((uint8_t)(tot >> 8)); w.push_back((uint8_t)tot);
    w.push_back((uint8_t)(d.id >> 8)); w.push_back((uint8_t)d.id);
    w.push_back((uint8_t)(fw >> 8)); w.push_back((uint8_t)fw);
    w.push_back(f.ttl);
    w.push_back(d.proto);
    w.push_back(0); w.push_back(0);
    w.insert(w.end(), d.src, d.src + 4);
    w.insert(w.end(), d.dst, d.dst + 4);
    w.insert(w.end(), ob.begin(), ob.end());
    uint16_t ck = ref_checksum(&w[h], f.hdr_len);
    w[h + 10] = (uint8_t)(ck >> 8); w[h + 11] = (uint8_t)ck;
    w.insert(w.end(), d.payload.begin() + f.off, d.payload.begin() + f.off + f.len);
    for (unsigned i = 0; i < f.pad; ++i) w.push_back((uint8_t)(0xa5 + i));  // link-layer padding: never part of the datagram
}

static PDU* parse_wire(const Dgram& d, const Frag& f) {
    if (d.wrap == W_BARE) return new IP(f.wire.data(), (uint32_t)f.wire.size());
    return new EthernetII(f.wire.data(), (uint32_t)f.wire.size());
}

// ------------------------------------------------------------------------------------------ canonical upper layers
// The IP payload of UDP/TCP/ICMP datagrams is what libtins itself serialises for a well-formed packet inside a parent
// IP with the same addresses: derived fields (lengths, checksums, option padding) are then canonical, which is the only
// situation in which "parsed as the upper-layer protocol, byte-identical" is meaningful.
static uint32_t mix32(uint32_t seed, uint32_t i) {
    return ((uint32_t)pat(seed, 4 * i + 0x10000) << 24) | ((uint32_t)pat(seed, 4 * i + 0x10001) << 16) | ((uint32_t)pat(seed, 4 * i + 0x10002) << 8) |
           pat(seed, 4 * i + 0x10003);
}
static Bytes build_upper(int kind, unsigned sub, size_t want, uint32_t seed, const uint8_t* src, const uint8_t* dst) {
    if (kind == K_RAW) return pattern(seed, std::max<size_t>(want, 1));
    static const uint16_t PORTS[] = {0, 1, 53, 67, 68, 80, 443, 500, 1024, 4789, 0x7fff, 0x8000, 0xfffe, 0xffff, 12345, 33434};
    IP ip(tins_addr(dst), tins_addr(src));
    uint16_t sport = PORTS[mix32(seed, 1) & 15], dport = PORTS[mix32(seed, 2) & 15];
    size_t hdr = 0;
    std::unique_ptr<PDU> upper;
    if (kind == K_UDP) {
        upper.reset(new UDP(dport, sport));
        hdr = 8;
    } else if (kind == K_TCP) {
        TCP* t = new TCP(dport, sport);
        upper.reset(t);
        t->seq(mix32(seed, 3)); t->ack_seq(mix32(seed, 4)); t->window((uint16_t)mix32(seed, 5));
        t->flags(mix32(seed, 6) & 0xff);
        if (sub & 1) t->mss((uint16_t)(536 + (sub >> 4) * 61));
        if (sub & 2) t->sack_permitted();
        if (sub & 4) t->winscale((uint8_t)(sub >> 5));
        if (sub & 8) t->timestamp(mix32(seed, 7), mix32(seed, 8));
        hdr = t->header_size();
    } else {
        static const ICMP::Flags T[] = {ICMP::ECHO_REQUEST, ICMP::ECHO_REPLY, ICMP::ECHO_REQUEST, ICMP::TIMESTAMP_REQUEST, ICMP::DEST_UNREACHABLE,
                                        ICMP::TIME_EXCEEDED};
        ICMP* c = new ICMP(T[sub % 6]);
        upper.reset(c);
        if (c->type() == ICMP::ECHO_REQUEST || c->type() == ICMP::ECHO_REPLY || c->type() == ICMP::TIMESTAMP_REQUEST) {
            c->id(sport); c->sequence(dport);
        } else {
            c->code((uint8_t)(sport & 3));
        }
        if (c->type() == ICMP::TIMESTAMP_REQUEST) { c->original_timestamp(seed); c->receive_timestamp(seed + 1); c->transmit_timestamp(seed + 2); }
        hdr = c->header_size();
    }
    size_t dlen = want > hdr ? want - hdr : 0;
    if (dlen) {
        Bytes data = pattern(seed, dlen);
        upper->inner_pdu(new RawPDU(data.begin(), data.end()));
    }
    ip.inner_pdu(upper.release());
    Bytes ser = ip.serialize();
    return Bytes(ser.begin() + 20, ser.end());
}

// ------------------------------------------------------------------------------------------ datagram generator
static const unsigned MAX_FRAGS = 64;

static size_t gen_size(Src& q, int tier) {
    // size-biased small; boundaries around multiples of 8 and of 8192; big ones only sometimes
    size_t cls = tier ? q.weighted({40, 22, 18, 8, 12}) : q.weighted({46, 26, 22, 2, 4});
    switch (cls) {
        default:
        case 0: return 1 + q.range(0, 199);
        case 1: { size_t k = 1 + q.range(0, 79); int d = (int)q.range(0, 2) - 1; return (size_t)((int)(8 * k) + d); }
        case 2: return 200 + q.range(0, 2800);
        case 3: { size_t k = 1 + q.range(0, 6); int d = (int)q.range(0, 2) - 1; return (size_t)((int)(8192 * k) + d); }
        case 4: {
            switch (q.weighted({3, 1, 1, 1})) {
                default:
                case 0: return 3000 + q.range(0, 62515);
                case 1: return 65515;
                case 2: return 65515 - q.range(0, 16);
                case 3: return 32768 + 8 * q.range(0, 64) + q.range(0, 2);
            }
        }
    }
}

// interior cut points (bytes, multiples of 8, 0 < c < size), sorted
static std::vector<uint32_t> gen_cuts(Src& q, size_t size, uint32_t seed, Ctx& ctx) {
    std::vector<uint32_t> cuts;
    size_t units = (size + 7) / 8;  // number of 8-byte units (the last may be short)
    if (units < 2) return cuts;
    size_t maxn = std::min<size_t>(MAX_FRAGS, units);
    size_t n;  // number of fragments wanted
    switch (q.weighted({4, 4, 3, 2, 1})) {
        default:
        case 0: n = 2 + q.range(0, 1); break;
        case 1: n = 4 + q.range(0, 4); break;
        case 2: n = 9 + q.range(0, 23); break;
        case 3: n = 33 + q.range(0, 31); break;
        case 4: n = MAX_FRAGS; break;
    }
    n = std::min(n, maxn);
    switch (q.weighted({4, 3, 2, 2, 1})) {
        default:
        case 0: {  // MTU style: equal chunks, the remainder last
            size_t cu = (units + n - 1) / n;
            for (size_t c = cu; c < units; c += cu) cuts.push_back((uint32_t)(c * 8));
            break;
        }
        case 1: {  // n-1 distinct cut points, expanded deterministically from the record's seed
            std::set<uint32_t> cs;
            for (uint32_t a = 0; a < 4 * n && cs.size() + 1 < n; ++a) cs.insert((uint32_t)(8 * (1 + mix32(seed, 100 + a) % (units - 1))));
            cuts.assign(cs.begin(), cs.end());
            break;
        }
        case 2: {  // 8-byte fragments: all of them when the datagram is short enough, otherwise n-1 of them and one long tail
            for (size_t c = 1; c < n && c < units; ++c) cuts.push_back((uint32_t)(c * 8));
            ctx.label("frag:8-byte-fragments");
            break;
        }
        case 3: {  // tiny last fragment: the last unit alone (1..8 bytes), the rest in equal chunks
            size_t body = units - 1;
            size_t m = std::max<size_t>(1, std::min(n - 1, body));
            size_t cu = (body + m - 1) / m;
            for (size_t c = cu; c < body; c += cu) cuts.push_back((uint32_t)(c * 8));
            cuts.push_back((uint32_t)(body * 8));
            break;
        }
        case 4: {  // 8-byte first fragment, one long middle, 8-byte fragments at the end
            cuts.push_back(8);
            size_t tail = std::min<size_t>(units - 1, std::min<size_t>(n, 4) - 1);
            for (size_t c = units - tail; c < units; ++c)
                if (c * 8 > 8) cuts.push_back((uint32_t)(c * 8));
            break;
        }
    }
    std::sort(cuts.begin(), cuts.end());
    cuts.erase(std::unique(cuts.begin(), cuts.end()), cuts.end());
    if (cuts.size() + 1 > MAX_FRAGS) cuts.resize(MAX_FRAGS - 1);
    return cuts;
}

static std::vector<RefOpt> gen_opts(Src& q) {
    std::vector<RefOpt> v;
    unsigned n = (unsigned)q.weighted({2, 2, 1});
    size_t used = 0;
    for (unsigned i = 0; i <= n; ++i) {
        // router alert(0x94, copied), record route(7), stream id(0x88, copied), timestamp(0x44), LSRR(0x83, copied), NOP
        static const uint8_t T[] = {0x94, 0x07, 0x88, 0x44, 0x83, 0x01};
        uint8_t t = T[q.pick(6)];
        RefOpt o;
        o.type = t;
        if (t != 1) {
            size_t dl = (t == 0x94 || t == 0x88) ? 2 : 3 + 4 * q.range(0, 2) + (t == 0x44 ? 1 : 0);
            if (t == 0x83 || t == 0x07) { o.data.push_back(4); dl -= 1; }  // pointer
            for (size_t k = 0; k < dl; ++k) o.data.push_back((uint8_t)(0x10 * (i + 1) + k));
        }
        size_t sz = t == 1 ? 1 : 2 + o.data.size();
        if (used + sz > 36) break;
        used += sz;
        v.push_back(o);
    }
    return v;
}

static PDU::PDUType expected_inner(int kind) {
    switch (kind) {
        case K_UDP: return PDU::UDP;
        case K_TCP: return PDU::TCP;
        case K_ICMP: return PDU::ICMP;
        default: return PDU::RAW;
    }
}

// canonical originals only: what libtins parses and re-serialises WITHOUT any fragmentation must already be identical,
// otherwise byte identity after reassembly would test the upper-layer codecs (property C03), not the reassembler
static bool is_canonical(const Dgram& d) {
    Dgram tmp = d;
    tmp.wrap = W_BARE;
    Frag whole;
    whole.len = (uint32_t)d.payload.size();
    build_wire(tmp, whole);
    try {
        IP ip(whole.wire.data(), (uint32_t)whole.wire.size());
        if (ip.inner_pdu() && ip.inner_pdu()->pdu_type() == expected_inner(d.kind)) return ip.inner_pdu()->serialize() == d.payload;
    } catch (const malformed_packet&) {
    }
    return false;
}

static int chain_root(const std::vector<Dgram>& ds, int i) {
    while (ds[i].follows >= 0) i = ds[i].follows;
    return i;
}

// addresses, id and the relation to an earlier datagram
static void gen_key(Src& q, std::vector<Dgram>& ds, size_t self, bool single, Ctx& ctx) {
    Dgram& d = ds[self];
    auto fresh_addr = [&](uint8_t* a) {
        unsigned v = q.u8();
        a[0] = 192; a[1] = 168; a[2] = (uint8_t)((v >> 4) % 3); a[3] = (uint8_t)(1 + (v & 3));
        if ((v & 0xc0) == 0xc0) { a[0] = (uint8_t)(1 + (v & 0x3f)); a[1] = q.u8(); a[2] = q.u8(); a[3] = q.u8(); }
    };
    unsigned rel = 0;
    if (self) rel = single ? (unsigned)q.weighted({3, 0, 0, 0, 0, 0, 0, 0, 0, 4}) : (unsigned)q.weighted({4, 2, 2, 1, 1, 1, 1, 2, 2, 0});
    const Dgram* p = self ? &ds[q.pick(self)] : nullptr;
    switch (rel) {
        default:
        case 0:
            d.id = (uint16_t)q.edgy(16);
            fresh_addr(d.src); fresh_addr(d.dst);
            break;
        case 1:  // same address pair, id differs in one bit
            memcpy(d.src, p->src, 4); memcpy(d.dst, p->dst, 4);
            d.id = (uint16_t)(p->id ^ (1u << q.pick(16)));
            ctx.label("key:same-addresses-id-one-bit");
            break;
        case 2: {  // same address pair, id differs only in the high or only in the low byte
            memcpy(d.src, p->src, 4); memcpy(d.dst, p->dst, 4);
            unsigned x = 1 + (unsigned)q.range(0, 254);
            d.id = (uint16_t)(p->id ^ (q.boolean() ? x : (x << 8)));
            ctx.label("key:same-addresses-id-one-byte");
            break;
        }
        case 3:  // same id, source differs in one bit
            d.id = p->id; memcpy(d.src, p->src, 4); memcpy(d.dst, p->dst, 4);
            d.src[q.pick(4)] ^= (uint8_t)(1u << q.pick(8));
            ctx.label("key:same-id-other-source");
            break;
        case 4:  // same id, destination differs in one bit
            d.id = p->id; memcpy(d.src, p->src, 4); memcpy(d.dst, p->dst, 4);
            d.dst[q.pick(4)] ^= (uint8_t)(1u << q.pick(8));
            ctx.label("key:same-id-other-destination");
            break;
        case 5:  // same id, same source, unrelated destination
            d.id = p->id; memcpy(d.src, p->src, 4); fresh_addr(d.dst);
            ctx.label("key:same-id-other-destination");
            break;
        case 6:  // same id, the other datagram's destination is this one's source
            d.id = p->id; memcpy(d.src, p->dst, 4); fresh_addr(d.dst);
            ctx.label("key:same-id-shared-host");
            break;
        case 7:  // reversed direction, same id (finding #18 class)
            d.id = p->id; memcpy(d.src, p->dst, 4); memcpy(d.dst, p->src, 4);
            break;
        case 8:  // the same key again, strictly after the other datagram is finished (or removed)
            d.id = p->id; memcpy(d.src, p->src, 4); memcpy(d.dst, p->dst, 4);
            d.follows = (int)(p - &ds[0]);
            break;
        case 9:  // an unfragmented packet with the key of a datagram that may be in flight
            d.id = p->id; memcpy(d.src, p->src, 4); memcpy(d.dst, p->dst, 4);
            ctx.label("unfragmented:same-key-as-a-datagram");
            break;
    }
    if (be32(d.src) == 0) d.src[3] = 1;  // a bare IP with source 0.0.0.0 makes libtins consult the routing table on serialize
}

// fragmented datagrams that can be in flight at the same time have pairwise different (id, source, destination)
// ("different identification or address pair"); the id does not influence the payload, so it is adjusted last
static void make_key_unique(std::vector<Dgram>& ds, size_t self) {
    Dgram& d = ds[self];
    if (d.frags.size() < 2) { d.follows = -1; return; }
    if (d.follows >= 0 && ds[d.follows].frags.size() < 2) d.follows = -1;  // nothing to wait for
    for (bool again = true; again;) {
        again = false;
        for (size_t j = 0; j < self; ++j) {
            if (ds[j].frags.size() < 2 || !(key_of(ds[j]) == key_of(d))) continue;
            if (d.follows >= 0 && chain_root(ds, (int)j) == chain_root(ds, d.follows)) continue;
            d.id = (uint16_t)(d.id + 1);
            d.follows = -1;
            again = true;
        }
    }
}

// one datagram (or, with `single`, one unfragmented packet) from a fixed-size record
static void gen_dgram(Src& q, std::vector<Dgram>& ds, size_t self, bool single, Ctx& ctx) {
    Dgram& d = ds[self];
    d.kind = (int)q.weighted({3, 3, 2, 2});
    d.wrap = (int)q.weighted({5, 3, 2});
    size_t want = single ? (q.chance(30) ? 1 + q.range(0, 1499) : 1 + q.range(0, 63)) : gen_size(q, ctx.tier);
    uint32_t seed = q.u16();
    // partition parameters are read before the less important details
    Bytes part = q.bytes(4);
    gen_key(q, ds, self, single, ctx);
    // header variation
    unsigned hv = q.u8();
    bool ttl_varies = (hv & 1) != 0, tos_varies = (hv & 2) != 0;
    unsigned df_mode = (hv >> 2) & 3;       // 0 none, 1 all, 2 first only, 3 all but first
    bool first_opts = (hv & 0x30) == 0x30;  // 25 %
    unsigned rest_opts = (hv >> 6) & 3;     // 0/1 none, 2 the copied options of the first, 3 same list as the first
    unsigned pad_mode = (unsigned)q.weighted({6, 2, 1});  // none, pad short frames to 60 bytes, arbitrary 1..9 bytes
    uint8_t ttl0 = (uint8_t)(1 + q.range(0, 254)), tos0 = q.u8();
    unsigned sub = q.u8();
    std::vector<RefOpt> o_first, o_rest;
    Bytes ob_first, ob_rest;
    if (first_opts) {
        o_first = gen_opts(q);
        bool end_pad = q.boolean();
        if (rest_opts == 3) o_rest = o_first;
        else if (rest_opts == 2) { for (const RefOpt& o : o_first) if (o.type & 0x80) o_rest.push_back(o); }
        ob_first = render_opts(o_first, end_pad);
        ob_rest = render_opts(o_rest, end_pad);
    }
    // payload
    size_t cap = 65535 - 20 - ob_first.size();
    if (want > cap) want = cap;
    if (d.kind == K_RAW) {
        static const uint8_t KNOWN[] = {1, 4, 6, 17, 41, 50, 51, 58};  // protocol numbers libtins has a parser for
        d.proto = (sub & 1) ? (uint8_t)(sub >> 1 | (sub << 7)) : (uint8_t)253;
        for (uint8_t k : KNOWN) if (d.proto == k) d.proto = 254;
    } else d.proto = d.kind == K_UDP ? 17 : (d.kind == K_TCP ? 6 : 1);
    d.payload = build_upper(d.kind, sub, want, seed, d.src, d.dst);
    if (d.payload.size() > cap) { d.payload.resize(cap); d.kind = K_RAW; d.proto = 253; }  // TCP/ICMP headers pushed it over the maximum
    if (d.kind != K_RAW && !is_canonical(d)) {
        ctx.excluded("original not canonical under libtins parse+serialize WITHOUT fragmentation (sent as unknown protocol instead)");
        ctx.label("excluded:non-canonical-original");
        d.kind = K_RAW;
        d.proto = 253;
    }
    // partition
    std::vector<uint32_t> cuts;
    if (!single) { Src pq(part.data(), part.size()); cuts = gen_cuts(pq, d.payload.size(), seed, ctx); }
    cuts.push_back((uint32_t)d.payload.size());
    uint32_t at = 0;
    for (size_t i = 0; i < cuts.size(); ++i) {
        Frag f;
        f.dg = (int)self; f.idx = (int)i;
        f.off = at; f.len = cuts[i] - at; f.mf = i + 1 < cuts.size();
        f.ttl = ttl_varies ? (uint8_t)(ttl0 + 7 * i) : ttl0;
        f.tos = tos_varies ? (uint8_t)(tos0 + 4 * i) : tos0;
        f.df = df_mode == 1 || (df_mode == 2 && i == 0) || (df_mode == 3 && i != 0);
        f.opts = i == 0 ? o_first : o_rest;
        f.optbytes = i == 0 ? ob_first : ob_rest;
        f.hdr_len = 20 + (unsigned)f.optbytes.size();
        size_t frame = (d.wrap == W_BARE ? 0 : (d.wrap == W_VLAN ? 18 : 14)) + f.hdr_len + f.len;
        if (pad_mode == 1 && d.wrap != W_BARE && frame < 60) f.pad = (unsigned)(60 - frame);
        else if (pad_mode == 2) f.pad = 1 + (unsigned)((i * 3 + seed) % 9);
        at = cuts[i];
        d.frags.push_back(f);
    }
    make_key_unique(ds, self);
    for (Frag& f : d.frags) build_wire(d, f);
    std::ostringstream os;
    os << kind_name(d.kind) << "/" << wrap_name(d.wrap) << " proto=" << (int)d.proto << " id=0x" << std::hex << d.id << std::dec << " " << ip_text(d.src) << "->"
       << ip_text(d.dst) << " payload=" << d.payload.size() << " frags=" << d.frags.size();
    if (d.frags.size() > 1) {
        os << " [";
        for (size_t i = 0; i < d.frags.size() && i < 6; ++i) os << (i ? "," : "") << d.frags[i].len;
        if (d.frags.size() > 6) os << ",..," << d.frags.back().len;
        os << "]";
    }
    if (first_opts) os << " opts(first=" << d.frags[0].hdr_len << "B rest=" << d.frags.back().hdr_len << "B)";
    if (ttl_varies) os << " ttl-varies";
    if (d.frags[0].pad || d.frags.back().pad) os << " padded";
    if (d.follows >= 0) os << " follows#" << d.follows;
    d.desc = os.str();
}

// ------------------------------------------------------------------------------------------ schedule
struct Ev {
    enum T { PKT, REMOVE, REMOVE_OTHER_ID, REMOVE_REVERSED, CLEAR } t;
    int dg, fi;
};

static std::vector<int> gen_order(Src& s, size_t n, Ctx& ctx, const char** name) {
    std::vector<int> o(n);
    for (size_t i = 0; i < n; ++i) o[i] = (int)i;
    switch (s.weighted({3, 2, 3, 2, 1, 1})) {
        default:
        case 0: *name = "in-order"; break;
        case 1: std::reverse(o.begin(), o.end()); *name = "reverse"; break;
        case 2:
            for (size_t i = n; i > 1; --i) std::swap(o[i - 1], o[s.range(0, i - 1)]);
            *name = "shuffle";
            break;
        case 3: std::rotate(o.begin(), o.end() - 1, o.end()); *name = "last-first"; break;   // last fragment, then 0..n-2
        case 4: std::rotate(o.begin(), o.begin() + 1, o.end()); *name = "first-last"; break; // 1..n-1, then the offset-0 fragment
        case 5: {
            std::vector<int> e;
            for (size_t i = 0; i < n; i += 2) e.push_back((int)i);
            for (size_t i = 1; i < n; i += 2) e.push_back((int)i);
            o = e; *name = "evens-odds";
            break;
        }
    }
    (void)ctx;
    return o;
}

// events of one datagram
static std::vector<Ev> gen_lane(Src& s, const Dgram& d, int di, Ctx& ctx, std::string& what) {
    std::vector<Ev> seq;
    size_t n = d.frags.size();
    if (n < 2) {
        seq.push_back(Ev{Ev::PKT, di, 0});
        if (s.chance(15)) seq.push_back(Ev{Ev::PKT, di, 0});
        what = "unfragmented";
        return seq;
    }
    unsigned plan = (unsigned)s.weighted({5, 2, 2, 2});
    const char* oname = "";
    std::vector<int> o = gen_order(s, n, ctx, &oname);
    ctx.label(std::string("order:") + oname);
    what = oname;
    if (plan == 2) {  // incomplete: 1 or 2 fragments never arrive
        unsigned w = (unsigned)s.weighted({2, 2, 3});
        int miss = w == 0 ? 0 : (w == 1 ? (int)n - 1 : (int)s.pick(n));
        o.erase(std::find(o.begin(), o.end(), miss));
        what += miss == 0 ? " missing-first" : (miss == (int)n - 1 ? " missing-last" : " missing-middle");
        ctx.label(miss == 0 ? "incomplete:missing-first" : (miss == (int)n - 1 ? "incomplete:missing-last" : "incomplete:missing-middle"));
        if (o.size() > 1 && s.chance(30)) o.erase(o.begin() + s.pick(o.size()));
    }
    for (int k : o) seq.push_back(Ev{Ev::PKT, di, k});
    if (plan == 1) {  // duplicates after completion, then possibly the whole set again
        unsigned np = 1 + (unsigned)s.pick(3);
        for (unsigned i = 0; i < np; ++i) seq.push_back(Ev{Ev::PKT, di, (int)s.pick(n)});
        what += " +dups-after-completion";
        ctx.label("dup:after-completion");
        if (s.boolean()) {
            const char* on2 = "";
            std::vector<int> o2 = gen_order(s, n, ctx, &on2);
            for (int k : o2) seq.push_back(Ev{Ev::PKT, di, k});
            what += std::string(" +second-set(") + on2 + ")";
            ctx.label("second-complete-set-after-stray-duplicates");
        }
    } else if (plan == 3) {
        const char* on2 = "";
        std::vector<int> o2 = gen_order(s, n, ctx, &on2);
        for (int k : o2) seq.push_back(Ev{Ev::PKT, di, k});
        what += std::string(" +second-set(") + on2 + ")";
        ctx.label("second-complete-set");
    }
    // duplicates anywhere (a copy of a fragment that is in the sequence)
    unsigned nd = (unsigned)s.weighted({5, 3, 1, 1});
    if (nd == 3) nd = 2 + (unsigned)s.pick(n);
    for (unsigned i = 0; i < nd && !seq.empty(); ++i) {
        Ev e = seq[s.pick(seq.size())];
        seq.insert(seq.begin() + s.pick(seq.size() + 1), e);
    }
    if (nd) { what += " +dups"; }
    if (s.chance(8)) {
        seq.insert(seq.begin() + s.pick(seq.size() + 1), Ev{Ev::REMOVE, di, 0});
        what += " +remove_stream";
    }
    if (s.chance(4)) {
        seq.insert(seq.begin() + s.pick(seq.size() + 1), Ev{Ev::REMOVE_OTHER_ID, di, 0});
        what += " +remove_stream(other id)";
    }
    return seq;
}

// ------------------------------------------------------------------------------------------ reference reassembler
struct RefStream {
    std::map<uint32_t, const Frag*> got;  // by offset
};
struct RefResult {
    int status;
    const Frag* first = nullptr;
    const Dgram* dg = nullptr;
    Bytes payload;
};

class RefReassembler {
public:
    explicit RefReassembler(const std::vector<Dgram>& ds) : ds_(ds) {}
    RefResult process(const Frag& f, Ctx& ctx) {
        RefResult r;
        const Dgram& d = ds_[f.dg];
        if (!f.mf && f.off == 0) { r.status = IPv4Reassembler::NOT_FRAGMENTED; return r; }
        RefStream& st = streams_[key_of(d)];
        auto it = st.got.find(f.off);
        if (it != st.got.end()) {
            // exact duplicate by construction
            if (it->second->len != f.len || it->second->dg != f.dg) VFAIL(ctx, "C08:harness:overlap-generated", "two different fragments at offset " << f.off);
        } else {
            auto nx = st.got.lower_bound(f.off);
            if (nx != st.got.end() && nx->first < f.off + f.len) VFAIL(ctx, "C08:harness:overlap-generated", "overlap with next at " << nx->first);
            if (nx != st.got.begin()) {
                auto pv = std::prev(nx);
                if (pv->first + pv->second->len > f.off || pv->second->dg != f.dg) VFAIL(ctx, "C08:harness:overlap-generated", "overlap with previous at " << pv->first);
            }
            st.got[f.off] = &f;
        }
        // coverage walk: complete iff the fragments tile [0, end) and the one ending the walk is the last fragment (MF = 0)
        uint32_t at = 0;
        bool complete = false;
        size_t used = 0;
        for (auto& kv : st.got) {
            if (kv.first != at) break;
            at += kv.second->len;
            ++used;
            if (!kv.second->mf) { complete = used == st.got.size(); break; }
        }
        if (!complete) { r.status = IPv4Reassembler::FRAGMENTED; return r; }
        r.status = IPv4Reassembler::REASSEMBLED;
        r.first = st.got.begin()->second;
        r.dg = &d;
        for (auto& kv : st.got) {
            const Frag* g = kv.second;
            r.payload.insert(r.payload.end(), g->wire.begin() + g->l2 + g->hdr_len, g->wire.begin() + g->l2 + g->hdr_len + g->len);
        }
        streams_.erase(key_of(d));
        return r;
    }
    void remove(const Key& k) { streams_.erase(k); }
    void clear() { streams_.clear(); }
    size_t pending() const { return streams_.size(); }
private:
    const std::vector<Dgram>& ds_;
    std::map<Key, RefStream> streams_;
};

// ------------------------------------------------------------------------------------------ header comparison
static std::string opts_text(const std::vector<RefOpt>& v) {
    std::ostringstream os;
    for (const RefOpt& o : v) os << "[" << std::hex << (int)o.type << std::dec << ":" << hex(o.data) << "]";
    return os.str();
}
static std::vector<RefOpt> tins_opts(const IP& ip) {
    std::vector<RefOpt> v;
    for (const IP::option& o : ip.options()) {
        IP::option_identifier id = o.option();
        RefOpt r;
        r.type = (uint8_t)((id.copied << 7) | (id.op_class << 5) | id.number);
        if (o.data_size()) r.data.assign(o.data_ptr(), o.data_ptr() + o.data_size());
        v.push_back(r);
    }
    return v;
}
// fields that identify "this is the header of fragment f of datagram d"; returns a description of the first difference
static std::string header_diff(const IP& ip, const Dgram& d, const Frag& f) {
    std::ostringstream os;
    if (ip.version() != 4) os << " version=" << (int)ip.version();
    if (ip.head_len() != f.hdr_len / 4) os << " head_len=" << (int)ip.head_len() << "(expected " << f.hdr_len / 4 << ")";
    if (ip.tos() != f.tos) os << " tos=" << (int)ip.tos() << "(expected " << (int)f.tos << ")";
    if (ip.id() != d.id) os << " id=" << ip.id() << "(expected " << d.id << ")";
    if (ip.ttl() != f.ttl) os << " ttl=" << (int)ip.ttl() << "(expected " << (int)f.ttl << ")";
    if (ip.protocol() != d.proto) os << " protocol=" << (int)ip.protocol() << "(expected " << (int)d.proto << ")";
    if (!addr_eq(ip.src_addr(), d.src)) os << " src=" << ip.src_addr().to_string() << "(expected " << ip_text(d.src) << ")";
    if (!addr_eq(ip.dst_addr(), d.dst)) os << " dst=" << ip.dst_addr().to_string() << "(expected " << ip_text(d.dst) << ")";
    std::vector<RefOpt> got = tins_opts(ip);
    std::vector<RefOpt> want = f.opts;
    if (!want.empty() && want.back().type == 0) want.pop_back();
    if (!(got == want)) os << " options=" << opts_text(got) << "(expected " << opts_text(want) << ")";
    return os.str();
}

static size_t first_diff(const Bytes& a, const Bytes& b) {
    size_t n = std::min(a.size(), b.size());
    for (size_t i = 0; i < n; ++i) if (a[i] != b[i]) return i;
    return n;
}

// ------------------------------------------------------------------------------------------ the property
void prop(Src& s, Ctx& ctx) {
    // ---- decode the case
    unsigned nd = 1 + (unsigned)s.weighted({4, 3, 2, 1});
    unsigned nu = (unsigned)s.weighted({5, 3, 1, 1});
    std::vector<Dgram> ds(nd + nu);
    const size_t REC = 28;
    // ---- lanes: one per datagram; a datagram that re-uses a key is appended to the lane of its predecessor
    std::vector<std::vector<Ev>> lanes;
    std::vector<int> lane_of(ds.size(), -1);
    std::vector<std::string> plans(ds.size());
    bool any_dup = false;
    for (unsigned i = 0; i < nd + nu; ++i) {
        Bytes rec = s.bytes(REC);
        Src q(rec.data(), rec.size());
        gen_dgram(q, ds, i, i >= nd, ctx);
        std::vector<Ev> seq = gen_lane(s, ds[i], (int)i, ctx, plans[i]);
        {
            std::set<int> seen;
            for (const Ev& e : seq) if (e.t == Ev::PKT && !seen.insert(e.fi).second) any_dup = true;
        }
        int host = ds[i].follows >= 0 ? lane_of[ds[i].follows] : -1;
        if (host >= 0) {
            lanes[host].insert(lanes[host].end(), seq.begin(), seq.end());
            lane_of[i] = host;
        } else {
            lane_of[i] = (int)lanes.size();
            lanes.push_back(seq);
        }
    }
    // merge
    std::vector<Ev> evs;
    unsigned merge = (unsigned)s.weighted({2, 2, 5});
    {
        std::vector<size_t> pos(lanes.size(), 0);
        size_t left = 0;
        for (auto& l : lanes) left += l.size();
        size_t rr = 0;
        while (left) {
            std::vector<size_t> live;
            for (size_t i = 0; i < lanes.size(); ++i) if (pos[i] < lanes[i].size()) live.push_back(i);
            size_t c;
            if (merge == 0) c = live[0];
            else if (merge == 1) c = live[rr++ % live.size()];
            else c = live[s.pick(live.size())];
            // random merge: take a short run from the chosen lane
            size_t run = merge == 2 ? 1 + s.weighted({4, 2, 1, 1}) : 1;
            for (size_t k = 0; k < run && pos[c] < lanes[c].size(); ++k) { evs.push_back(lanes[c][pos[c]++]); --left; }
        }
    }
    if (s.chance(6)) { evs.insert(evs.begin() + s.pick(evs.size() + 1), Ev{Ev::CLEAR, 0, 0}); ctx.label("op:clear_streams"); }
    if (s.chance(3)) {
        // remove_stream(id, destination, source): per the documentation this names a different datagram; libtins' unordered key
        // makes it hit the stream of source->destination (same root cause as finding #18) -> that datagram is in the twin class
        int di = (int)s.pick(nd);
        if (ds[di].frags.size() > 1 && memcmp(ds[di].src, ds[di].dst, 4) != 0) {
            evs.insert(evs.begin() + s.pick(evs.size() + 1), Ev{Ev::REMOVE_REVERSED, di, 0});
            ctx.label("op:remove_stream-reversed-arguments");
        }
    }
    // reversed-direction class (finding #18): a fragmented datagram is in it when some other key that this case touches (another
    // fragmented datagram, or the arguments of a remove_stream() call) has the same id and the same UNORDERED address pair but a
    // different (source, destination)
    {
        std::vector<Key> touched;
        for (const Dgram& d : ds) if (d.frags.size() > 1) touched.push_back(key_of(d));
        for (const Ev& e : evs) {
            Key k = key_of(ds[e.dg]);
            if (e.t == Ev::REMOVE) touched.push_back(k);
            else if (e.t == Ev::REMOVE_OTHER_ID) touched.push_back(Key{(uint16_t)(k.id ^ 0x0100), k.src, k.dst});
            else if (e.t == Ev::REMOVE_REVERSED) touched.push_back(Key{k.id, k.dst, k.src});
        }
        for (Dgram& d : ds) {
            if (d.frags.size() < 2) continue;
            Key k = key_of(d);
            for (const Key& t : touched)
                if (t.id == k.id && t.src == k.dst && t.dst == k.src && !(t == k)) d.twin = true;
        }
    }
    // a key is re-used by a different datagram only when nothing of its predecessor is left in the reassembler: where the schedule
    // leaves a residue (stray duplicates, an incomplete set, a clear_streams() in between) the abandoned stream is removed first
    {
        struct Live { int owner; std::set<int> have; };
        std::map<Key, Live> live;
        std::vector<Ev> out;
        for (const Ev& e : evs) {
            const Dgram& d = ds[e.dg];
            Key k = key_of(d);
            switch (e.t) {
                case Ev::CLEAR: live.clear(); break;
                case Ev::REMOVE: live.erase(k); break;
                case Ev::REMOVE_OTHER_ID: live.erase(Key{(uint16_t)(d.id ^ 0x0100), k.src, k.dst}); break;
                case Ev::REMOVE_REVERSED: live.erase(Key{d.id, k.dst, k.src}); break;
                case Ev::PKT: {
                    if (d.frags.size() < 2) break;
                    auto it = live.find(k);
                    if (it != live.end() && it->second.owner != e.dg) {
                        out.push_back(Ev{Ev::REMOVE, it->second.owner, 0});
                        ctx.label("key-reuse:after-remove_stream");
                        live.erase(it);
                    }
                    Live& l = live[k];
                    l.owner = e.dg;
                    l.have.insert(e.fi);
                    if (l.have.size() == d.frags.size()) live.erase(k);
                    break;
                }
            }
            out.push_back(e);
        }
        evs.swap(out);
        for (const Dgram& d : ds) if (d.follows >= 0) ctx.label("key-reuse:same-key-again-later");
    }

    // ---- statistics
    size_t nfragmented = 0, maxfr = 0;
    bool any_twin = false;
    for (const Dgram& d : ds) {
        if (d.frags.size() > 1) ++nfragmented;
        maxfr = std::max(maxfr, d.frags.size());
        any_twin |= d.twin;
        ctx.hash(d.desc);
        ctx.hash(hash_bytes(d.payload.data(), std::min<size_t>(d.payload.size(), 64)));
        if (d.frags.size() > 1) {
            ctx.label(std::string("proto:") + kind_name(d.kind));
            ctx.label(std::string("wrap:") + wrap_name(d.wrap));
            if (d.frags.back().len < 8) ctx.label("frag:tiny-last");
            if (d.frags.size() == MAX_FRAGS) ctx.label("frag:64-fragments");
            if (d.frags[0].hdr_len > 20) ctx.label("hdr:options-in-first-fragment");
            if (d.frags[0].ttl != d.frags[1].ttl) ctx.label("hdr:ttl-differs-between-fragments");
            if (d.frags[0].pad || d.frags.back().pad) ctx.label("frame:link-layer-padding");
            if (d.payload.size() >= 32768) ctx.label("size:>=32768");
            else if (d.payload.size() > 8192) ctx.label("size:>8192");
            if (d.payload.size() % 8 == 0) ctx.label("size:multiple-of-8");
            if (d.payload.size() == 65535 - d.frags[0].hdr_len) ctx.label("size:maximum");
        }
    }
    if (any_twin) ctx.label("class:reversed-direction-same-id");
    if (nfragmented >= 2) ctx.label("concurrent:>=2-fragmented-datagrams");
    if (nu) ctx.label("unfragmented-packets-interleaved");
    if (any_dup) ctx.label("dup:any");
    {
        uint64_t h = 0;
        for (const Ev& e : evs) h = hash_mix(h, ((uint64_t)e.t << 32) ^ ((uint64_t)e.dg << 16) ^ (uint64_t)e.fi);
        ctx.hash(h);
    }
    if (ctx.logging()) {
        for (size_t i = 0; i < ds.size(); ++i) ctx.log("datagram #" + std::to_string(i) + ": " + ds[i].desc + "  plan: " + plans[i] + (ds[i].twin ? "  [reversed-twin class]" : ""));
    }

    // ---- run
    // both constructors (the explicit one takes the only overlapping technique there is), chosen by the number of datagrams
    IPv4Reassembler reasm_default;
    IPv4Reassembler reasm_explicit(IPv4Reassembler::NONE);
    IPv4Reassembler& reasm = ds.size() % 2 ? reasm_default : reasm_explicit;
    RefReassembler ref(ds);
    // NT rule: >= 3 fragments not in order, or >= 2 concurrent datagrams, or a duplicate
    bool out_of_order3 = false;
    {
        std::map<int, int> lastidx;
        for (const Ev& e : evs)
            if (e.t == Ev::PKT && ds[e.dg].frags.size() >= 3) {
                auto it = lastidx.find(e.dg);
                if (it != lastidx.end() && e.fi < it->second) out_of_order3 = true;
                lastidx[e.dg] = e.fi;
            }
    }
    ctx.nontrivial(out_of_order3 || nfragmented >= 2 || any_dup);
    {
        std::ostringstream os;
        for (size_t i = 0; i < ds.size() && i < 3; ++i) os << (i ? " | " : "") << ds[i].desc << " {" << plans[i] << "}";
        os << " ; " << evs.size() << " events";
        ctx.sample(os.str());
    }

    unsigned n_reasm = 0, n_events = 0;
    std::set<std::pair<int, int>> seen_pkts;
    for (const Ev& e : evs) {
        ++n_events;
        if (e.t == Ev::CLEAR) {
            reasm.clear_streams();
            ref.clear();
            if (ctx.logging()) ctx.log("  clear_streams()");
            continue;
        }
        const Dgram& d = ds[e.dg];
        auto sig = [&](const char* specific) { return d.twin ? std::string(SIG_TWIN) : std::string(specific); };
        if (e.t == Ev::REMOVE || e.t == Ev::REMOVE_OTHER_ID || e.t == Ev::REMOVE_REVERSED) {
            Key k = key_of(d);
            if (e.t == Ev::REMOVE) {
                reasm.remove_stream(d.id, tins_addr(d.src), tins_addr(d.dst));
                ref.remove(k);
                ctx.label("op:remove_stream");
            } else if (e.t == Ev::REMOVE_OTHER_ID) {
                uint16_t other = (uint16_t)(d.id ^ 0x0100);
                reasm.remove_stream(other, tins_addr(d.src), tins_addr(d.dst));
                ref.remove(Key{other, k.src, k.dst});
                ctx.label("op:remove_stream-other-id");
            } else {
                reasm.remove_stream(d.id, tins_addr(d.dst), tins_addr(d.src));
                ref.remove(Key{d.id, k.dst, k.src});
            }
            if (ctx.logging()) ctx.log(std::string("  remove_stream for datagram #") + std::to_string(e.dg) + (e.t == Ev::REMOVE ? "" : (e.t == Ev::REMOVE_OTHER_ID ? " (other id)" : " (reversed)")));
            continue;
        }
        const Frag& f = d.frags[e.fi];
        bool is_dup = !seen_pkts.insert(std::make_pair(e.dg, e.fi)).second;
        RefResult want = ref.process(f, ctx);

        std::unique_ptr<PDU> pkt;
        try {
            pkt.reset(parse_wire(d, f));
        } catch (const malformed_packet&) {
            VFAIL(ctx, "C08:input:valid-packet-rejected-by-parser", "datagram " << d.desc << " fragment " << e.fi << " wire " << hex(f.wire, 80));
        }
        IP* ip0 = pkt->find_pdu<IP>();
        VCHECK(ctx, ip0 != nullptr, "C08:input:no-ip-layer-after-parse", "datagram " << d.desc << " fragment " << e.fi);
        {
            // the parser must see the packet the fragmenter wrote (guards the harness and the "fragment payload = raw bytes bounded by
            // the total length" mechanism the property is anchored in)
            std::string hd = header_diff(*ip0, d, f);
            bool mf = (ip0->flags() & IP::MORE_FRAGMENTS) != 0;
            size_t inner = ip0->inner_pdu() ? ip0->inner_pdu()->size() : 0;
            VCHECK(ctx, hd.empty() && mf == f.mf && (uint32_t)ip0->fragment_offset() * 8 == f.off && inner == f.len, "C08:input:parsed-fragment-differs-from-wire",
                   "datagram " << d.desc << " fragment " << e.fi << " off=" << f.off << " len=" << f.len << " mf=" << f.mf << " parsed: off=" << ip0->fragment_offset() * 8
                               << " mf=" << mf << " inner=" << inner << " " << hd);
        }
        std::unique_ptr<PDU> before;
        if (want.status == IPv4Reassembler::NOT_FRAGMENTED) before.reset(pkt->clone());

        int got;
        try {
            got = reasm.process(*pkt);
        } catch (const exception_base& ex) {
            if (d.twin) { ctx.report(SIG_TWIN, std::string("process() threw ") + ex.what()); continue; }
            throw;
        }
        if (ctx.logging()) {
            std::ostringstream os;
            os << "  #" << e.dg << " frag " << e.fi << " [" << f.off << "," << f.off + f.len << ") mf=" << f.mf << " ttl=" << (int)f.ttl << (is_dup ? " (dup)" : "") << " -> "
               << status_name(got) << " (reference " << status_name(want.status) << ")";
            ctx.log(os.str());
        }
        if (got != want.status) {
            const char* specific = want.status == IPv4Reassembler::REASSEMBLED
                                       ? "C08:status:complete-set-not-reassembled"
                                       : (got == IPv4Reassembler::REASSEMBLED ? "C08:status:reassembled-from-incomplete-set"
                                                                              : (want.status == IPv4Reassembler::NOT_FRAGMENTED ? "C08:status:unfragmented-packet-misreported"
                                                                                                                                : "C08:status:fragment-reported-not-fragmented"));
            std::ostringstream os;
            os << "event " << n_events << "/" << evs.size() << ": datagram #" << e.dg << " (" << d.desc << "; " << plans[e.dg] << ") fragment " << e.fi << " [" << f.off << ","
               << f.off + f.len << ") mf=" << f.mf << (is_dup ? " duplicate" : "") << ": process() = " << status_name(got) << ", reference = " << status_name(want.status);
            ctx.report(sig(specific), os.str());
            continue;  // only reached for an open finding (twin class): the model goes on as specified, every later difference is counted
        }
        if (got == IPv4Reassembler::NOT_FRAGMENTED) {
            // left untouched
            IP* ip = pkt->find_pdu<IP>();
            VCHECK(ctx, ip == ip0 && ip != nullptr, sig("C08:unfragmented:modified"), "IP layer replaced");
            std::string hd = header_diff(*ip, d, f);
            VCHECK(ctx, hd.empty() && ip->fragment_offset() == 0 && (ip->flags() & IP::MORE_FRAGMENTS) == 0 && ((ip->flags() & IP::DONT_FRAGMENT) != 0) == f.df,
                   sig("C08:unfragmented:modified"), "header changed:" << hd << " datagram " << d.desc);
            Bytes a = before->serialize(), b = pkt->serialize();
            VCHECK(ctx, a == b, sig("C08:unfragmented:modified"), "serialisation differs at byte " << first_diff(a, b) << " datagram " << d.desc);
            // and it still carries the original payload
            VCHECK(ctx, b.size() >= f.l2 + f.hdr_len + f.len && std::equal(d.payload.begin(), d.payload.end(), b.begin() + f.l2 + f.hdr_len), sig("C08:unfragmented:modified"),
                   "payload differs from the wire, datagram " << d.desc);
            ctx.label("status:NOT_FRAGMENTED");
            continue;
        }
        if (got == IPv4Reassembler::FRAGMENTED) {
            ctx.label("status:FRAGMENTED");
            continue;
        }
        // ---- REASSEMBLED
        ++n_reasm;
        ctx.label("status:REASSEMBLED");
        if (e.fi == 0) ctx.label("completed-by:first-fragment");
        else if (e.fi == (int)d.frags.size() - 1) ctx.label("completed-by:last-fragment");
        else ctx.label("completed-by:middle-fragment");
        if (is_dup) ctx.label("completed-by:copy-of-an-earlier-packet");
        // harness self-check: the reference reassembly is the original datagram
        if (want.payload != d.payload) VFAIL(ctx, "C08:harness:reference-payload", "reference reassembly differs from the original at " << first_diff(want.payload, d.payload));
        IP* ip = pkt->find_pdu<IP>();
        VCHECK(ctx, ip != nullptr, sig("C08:reassembled:no-ip-layer"), "datagram " << d.desc);
        // header = the offset-0 fragment's, offset and MF cleared (DF, total length, checksum: not compared)
        {
            std::string hd = header_diff(*ip, d, *want.first);
            VCHECK(ctx, hd.empty(), sig("C08:reassembled:header-not-first-fragments"),
                   "datagram " << d.desc << " completed by fragment " << e.fi << ":" << hd);
            VCHECK(ctx, ip->fragment_offset() == 0, sig("C08:reassembled:offset-not-cleared"), "fragment_offset=" << ip->fragment_offset() << " datagram " << d.desc);
            VCHECK(ctx, (ip->flags() & IP::MORE_FRAGMENTS) == 0, sig("C08:reassembled:more-fragments-not-cleared"), "flags=" << (int)ip->flags() << " datagram " << d.desc);
            VCHECK(ctx, !ip->is_fragmented(), sig("C08:reassembled:still-fragmented"), "is_fragmented() after REASSEMBLED, datagram " << d.desc);
        }
        // payload parsed as the upper-layer protocol
        PDU* inner = ip->inner_pdu();
        VCHECK(ctx, inner != nullptr, sig("C08:reassembled:no-payload"), "datagram " << d.desc);
        if (!inner) continue;
        VCHECK(ctx, inner->pdu_type() == expected_inner(d.kind), sig("C08:reassembled:upper-layer-class"),
               "inner pdu_type=" << (int)inner->pdu_type() << " expected " << (int)expected_inner(d.kind) << " datagram " << d.desc);
        VCHECK(ctx, inner->parent_pdu() == ip, sig("C08:reassembled:upper-layer-not-linked"), "parent_pdu() of the payload is not the IP layer");
        {
            Bytes got_payload = inner->serialize();
            VCHECK(ctx, got_payload == d.payload, sig("C08:reassembled:payload-differs"),
                   "datagram " << d.desc << " (" << plans[e.dg] << "): " << got_payload.size() << " bytes, original " << d.payload.size() << ", first difference at "
                               << first_diff(got_payload, d.payload) << "; got " << hex(got_payload, 48) << " original " << hex(d.payload, 48));
        }
        {
            // what a user forwarding the packet would write out
            Bytes all = pkt->serialize();
            size_t l2 = f.l2;
            bool ok = all.size() >= l2 + 20;
            size_t ihl = ok ? (size_t)(all[l2] & 0x0f) * 4 : 0;
            ok = ok && ihl == want.first->hdr_len && all.size() >= l2 + ihl + d.payload.size() && std::equal(d.payload.begin(), d.payload.end(), all.begin() + l2 + ihl);
            VCHECK(ctx, ok, sig("C08:reassembled:serialised-packet-payload-differs"),
                   "datagram " << d.desc << ": whole-packet serialisation " << all.size() << " bytes, ihl=" << ihl << " (first fragment " << want.first->hdr_len << ")");
        }
    }
    if (n_reasm >= 2) ctx.label("reassembled:>=2-in-one-case");
    if (ref.pending()) ctx.label("end:incomplete-streams-left");
}
